"""Independent fixed-column PDB reader/writer (never imports propka)."""
from collections import namedtuple

Rec = namedtuple("Rec", "kind serial name alt resn chain num icode x y z occ beta elem charge raw")
# x, y, z are integers in milli-Angstrom


def fmt_name(name, elem=None):
    """Atom name into columns 13-16: one-letter elements start in column 14."""
    if len(name) >= 4:
        return name[:4]
    if name[:1].isdigit():          # 1HB, 2HG1: the digit sits in column 13
        return name.ljust(4)
    if elem and len(elem) == 2:
        return name.ljust(4)
    return " " + name.ljust(3)


def atom_line(kind="ATOM", serial=1, name="CA", alt=" ", resn="ALA", chain="A", num=1, icode=" ",
              x=0, y=0, z=0, occ="1.00", beta="0.00", elem=None, charge="  ", milli=True, serial_field=None):
    """x, y, z in milli-Angstrom (integers) when milli, else floats in Angstrom."""
    if milli:
        xs, ys, zs = (_milli(v) for v in (x, y, z))
    else:
        xs, ys, zs = ("%8.3f" % v for v in (x, y, z))
    if elem is None:
        elem = name.strip()[0] if name.strip() else ""
    sf = serial_field if serial_field is not None else "%5d" % serial
    return "%-6s%5s %4s%1s%3s %1s%4s%1s   %8s%8s%8s%6s%6s          %2s%2s" % (
        kind, sf[-5:], fmt_name(name, elem), alt, resn[:3].rjust(3) if len(resn) < 3 else resn[:3], chain, str(num), icode,
        xs, ys, zs, occ, beta, elem.upper().rjust(2), charge)


def _milli(v):
    v = int(v)
    s = "-" if v < 0 else ""
    a = abs(v)
    return ("%s%d.%03d" % (s, a // 1000, a % 1000)).rjust(8)


def parse_line(line):
    kind = line[:6].strip()
    if kind not in ("ATOM", "HETATM"):
        return Rec(kind, None, None, None, None, None, None, None, None, None, None, None, None, None, None, line)

    def mi(s):
        s = s.strip()
        neg = s.startswith("-")
        s = s.lstrip("+-")
        if "." in s:
            a, b = s.split(".")
        else:
            a, b = s, ""
        b = (b + "000")[:3]
        v = int(a or "0") * 1000 + int(b)
        return -v if neg else v
    return Rec(kind, line[6:11], line[12:16], line[16], line[17:20], line[21], int(line[22:26]), line[26],
               mi(line[30:38]), mi(line[38:46]), mi(line[46:54]), line[54:60], line[60:66], line[76:78].strip(),
               line[78:80], line)


def read(path_or_text):
    if "\n" in path_or_text or path_or_text.startswith(("ATOM", "HETATM", "MODEL", "REMARK", "HEADER")):
        text = path_or_text
    else:
        text = open(path_or_text).read()
    return [parse_line(ln) for ln in text.splitlines()]


def set_xyz(line, x, y, z):
    """Replace the coordinates of an ATOM/HETATM line (milli-Angstrom integers)."""
    line = line.rstrip("\n").ljust(54)
    return line[:30] + _milli(x) + _milli(y) + _milli(z) + line[54:]


def residues(recs):
    """Group ATOM/HETATM records into residues by contiguous (chain, num, icode) within a model."""
    out = []
    cur = None
    for i, r in enumerate(recs):
        if r.kind in ("ATOM", "HETATM"):
            key = (r.chain, r.num, r.icode)
            if cur is None or cur["key"] != key:
                cur = {"key": key, "resn": r.resn, "idx": [], "kind": r.kind}
                out.append(cur)
            cur["idx"].append(i)
        elif r.kind in ("TER", "MODEL", "ENDMDL"):
            cur = None
            out.append({"key": None, "sep": r.kind, "idx": [i]})
    return out
