"""Parser of the .pka text written by propka (fixed layout of output.py / Group.get_determinant_string)."""
import re
from decimal import Decimal


def cents(s):
    """'  -0.85' -> -85 (integer hundredths), exact."""
    return int((Decimal(s.strip()) * 100).to_integral_value())


def tenths(s):
    return int((Decimal(s.strip()) * 10).to_integral_value())


def parse(text):
    """Returns dict with det_groups, summary, fold_rows, charge_rows, opt, r80, stab, pi (None when absent)."""
    lines = text.splitlines()
    out = {"det_groups": [], "summary": [], "fold_rows": [], "charge_rows": [], "opt": None, "r80": None,
           "stab": None, "pi": None, "coupled_note": False, "date_line": lines[0] if lines else ""}
    i = 0
    n = len(lines)
    # determinant section
    while i < n and not lines[i].startswith(" RESIDUE    pKa"):
        i += 1
    i += 2
    cur = None
    while i < n:
        ln = lines[i]
        if ln.startswith("SUMMARY OF THIS PREDICTION"):
            break
        if ln.startswith("Coupled residues"):
            out["coupled_note"] = True
        elif len(ln) >= 103 and re.match(r".{9} +-?\d+\.\d\d[* ] ", ln):
            cur = {"label": ln[0:9], "pka": cents(ln[9:16]), "star": ln[16] == "*", "buried": int(ln[17:22]),
                   "ev": cents(ln[25:32]), "nv": int(ln[32:37]), "el": cents(ln[37:44]), "nl": int(ln[44:49]),
                   "sc": [], "bb": [], "cb": [], "nlines": 0}
            out["det_groups"].append(cur)
            _dets(cur, ln)
        elif len(ln) >= 103 and cur is not None and ln[0:9] == cur["label"] and ln[9:49].strip() == "":
            _dets(cur, ln)
        i += 1
    # summary
    i += 2
    while i < n and not lines[i].startswith("-----"):
        ln = lines[i]
        if ln.strip():
            m = re.match(r"   (.{9}) +(-?\d+\.\d\d) +(-?\d+\.\d\d) (.{18})   ?(.*)$", ln)
            if m:
                out["summary"].append({"label": m.group(1), "pka": cents(m.group(2)), "model": cents(m.group(3)),
                                       "ligtype": m.group(4).strip(), "note": m.group(5).strip()})
        i += 1
    # folding profile
    while i < n and not lines[i].startswith("Free energy of"):
        i += 1
    i += 1
    while i < n and lines[i].strip():
        m = re.match(r"\s*(-?\d+\.\d\d)\s+(-?\d+\.\d\d)\s*$", lines[i])
        if m:
            out["fold_rows"].append([cents(m.group(1)), cents(m.group(2))])
        i += 1
    for ln in lines[i:]:
        m = re.match(r"The pH of optimum stability is\s*(-?\d+\.\d) for which the free energy is\s*(-?\d+\.\d)", ln)
        if m:
            out["opt"] = [tenths(m.group(1)), tenths(m.group(2))]
        m = re.match(r"The free energy is within 80 % of maximum at pH\s*(-?\d+\.\d) to\s*(-?\d+\.\d)", ln)
        if m:
            out["r80"] = [tenths(m.group(1)), tenths(m.group(2))]
        m = re.match(r"The free energy is negative in the range\s*(-?\d+\.\d) -\s*(-?\d+\.\d)", ln)
        if m:
            out["stab"] = [tenths(m.group(1)), tenths(m.group(2))]
        m = re.match(r"\s*(-?\d+\.\d\d)\s+(-?\d+\.\d\d)\s+(-?\d+\.\d\d)\s*$", ln)
        if m:
            out["charge_rows"].append([cents(m.group(1)), cents(m.group(2)), cents(m.group(3))])
        m = re.match(r"The pI is\s*(-?\d+\.\d\d) \(folded\) and\s*(-?\d+\.\d\d) \(unfolded\)", ln)
        if m:
            out["pi"] = [cents(m.group(1)), cents(m.group(2))]
    return out


def _dets(cur, ln):
    cur["nlines"] += 1
    for k, col in (("sc", 49), ("bb", 67), ("cb", 85)):
        val = ln[col:col + 8]
        lab = ln[col + 9:col + 18]
        if lab == "XXX   0 X":
            continue
        cur[k].append([lab, cents(val)])


def strip_date(text):
    """The .pka text without its first (date) line."""
    return text.split("\n", 1)[1] if "\n" in text else ""
