"""Projection of a real run to the abstract, integer-valued domain of the specifications."""
import os

from . import pdbio, pkaparse, core


def m6(x):
    return int(round(x * 1000000))


def key_of(atom):
    return (int(round(atom.x * 1000)), int(round(atom.y * 1000)), int(round(atom.z * 1000)))


class InputIndex:
    """Independent reading of the input text: line records, coordinate index, residue table."""

    def __init__(self, text):
        self.lines = text.splitlines()
        self.recs = [pdbio.parse_line(ln) if ln[:6].strip() in ("ATOM", "HETATM") else None for ln in self.lines]
        self.by_xyz = {}
        self.dups = 0
        for i, r in enumerate(self.recs):
            if r is not None:
                k = (r.x, r.y, r.z)
                if k in self.by_xyz:
                    self.dups += 1
                self.by_xyz.setdefault(k, i)

    def gid(self, atom):
        return self.by_xyz.get(key_of(atom), -1)

    def residues(self, ignore=()):
        """Residue-level view in file order: contiguous records with the same (chain, num, icode), per model."""
        out = []
        model = 1
        sep = 1          # a TER/MODEL record (or the file start) precedes
        cur = None
        for i, ln in enumerate(self.lines):
            tag = ln[:6]
            if tag == "MODEL ":
                try:
                    model = int(ln[6:])
                except ValueError:
                    pass
                sep = 1
                cur = None
                continue
            if tag == "TER   ":
                sep = 1
                cur = None
                continue
            r = self.recs[i]
            if r is None:
                continue
            key = (model, r.chain, r.num, r.icode)
            if cur is None or cur["_key"] != key:
                cur = {"_key": key, "pos": len(out) + 1, "model": model, "chain": r.chain, "num": r.num, "ic": r.icode,
                       "resn": r.resn, "het": 0 if r.kind == "ATOM" else 1, "names": [], "ids": [], "alts": [],
                       "els": [], "ter": 0, "sg": [], "ign": 1 if r.resn in ignore else 0}
                out.append(cur)
                cur["ter"] = sep
            if r.kind == "ATOM" or True:
                pass
            cur["names"].append(r.name.strip())
            cur["ids"].append(i)
            cur["alts"].append(r.alt)
            el = r.name[0:2].strip().strip("0123456789")
            if len(r.name.strip()) == 4:
                el = el[:1]
            cur["els"].append(el.upper())
            if r.name.strip() == "SG" and not cur["sg"]:
                cur["sg"] = [r.x, r.y, r.z]
            # a separator only counts up to the next ATOM-kind residue
            if r.kind == "ATOM" and r.resn not in ignore:
                sep = 0
        for c in out:
            del c["_key"]
        return out


def det_list(group, kind, idx):
    out = []
    for d in group.determinants[kind]:
        g = d.group
        g = getattr(g, "group", g)          # iterative.Iterative wraps the group
        atom = getattr(g, "atom", None)
        out.append([idx.gid(atom) if atom is not None else -1, d.label, m6(d.value),
                    getattr(g, "type", "?"), int(round(100 * (getattr(g, "charge", 0) or 0))),
                    1 if getattr(g, "titratable", False) else 0])
    return out


def group_record(g, idx):
    a = g.atom
    return {
        "gid": idx.gid(a), "aname": a.name, "resn": a.res_name.strip(), "chain": a.chain_id, "num": a.res_num,
        "ic": a.icode or " ", "het": 0 if a.type == "atom" else 1, "type": g.type, "rtype": g.residue_type.strip(),
        "label": g.label, "q100": int(round(100 * (g.charge or 0))), "model6": m6(g.model_pka),
        "titr": 1 if g.titratable else 0, "bridged": 1 if a.cysteine_bridge else 0,
        "use": 1 if g.use_in_calculations() else 0, "pka6": m6(g.pka_value), "ev6": m6(g.energy_volume),
        "el6": m6(g.energy_local), "nv": int(g.num_volume), "nl": int(g.num_local), "bur4": int(round(10000 * g.buried)),
        "sc": det_list(g, "sidechain", idx), "bb": det_list(g, "backbone", idx), "cb": det_list(g, "coulomb", idx),
        "ncc": sorted(idx.gid(x.atom) for x in g.non_covalently_coupled_groups),
        "cov": sorted(idx.gid(x.atom) for x in g.covalently_coupled_groups),
        "pen": idx.gid(g.coupled_titrating_group.atom) if g.coupled_titrating_group else -1,
        "el": a.element,
    }


def cfg_tables():
    """Independent 20-line reader of the working tree's propka.cfg (never through propka)."""
    t = {"model_pkas": {}, "custom_model_pkas": {}, "charge": {}, "ions": {}, "write_out_order": [], "ignore_residues": [],
         "scalars": {}, "protein_group_mapping": {}}
    for ln in open(os.path.join(core.REPO, "propka", "propka.cfg")):
        ln = ln.split("#")[0].split()
        if not ln:
            continue
        k = ln[0]
        if k in ("model_pkas", "custom_model_pkas", "charge", "ions") and len(ln) == 3:
            t[k][ln[1]] = float(ln[2])
        elif k in ("write_out_order", "ignore_residues") and len(ln) == 2:
            t[k].append(ln[1])
        elif k == "protein_group_mapping" and len(ln) == 3:
            t[k][ln[1]] = ln[2]
        elif len(ln) == 2:
            try:
                t["scalars"][k] = float(ln[1])
            except ValueError:
                pass
    return t


def observe(run, text, with_input=True, all_groups=False):
    """Returns the run record (dict of ints/strings) for the Trace_Run specification."""
    mol = run.mol
    idx = InputIndex(text)
    rec = {"confs": list(mol.conformation_names), "G": {}, "others": {}, "dups": idx.dups}
    for name in list(mol.conformation_names) + ["AVR"]:
        conf = mol.conformations[name]
        gl = []
        others = []
        for g in conf.groups:
            is_ion = g.type == "ION"
            if g.use_in_calculations() or is_ion or g.titratable or all_groups:
                gl.append(group_record(g, idx))
            else:
                scored = 1 if (abs(g.energy_volume) > 1e-12 or abs(g.energy_local) > 1e-12 or g.num_volume) else 0
                others.append([idx.gid(g.atom), g.type, 1 if g.titratable else 0, scored])
        rec["G"][name] = gl
        rec["others"][name] = others
    if with_input:
        rec["inres"] = idx.residues()
    rec["file"] = pkaparse.parse(run.pka_text) if run.pka_text else None
    return rec, idx
