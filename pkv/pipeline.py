"""Stage-level traces of a run (tla/Pipeline.tla): wrappers installed from the harness (no change to the repository)
record one event per stage call *at its return*, with the scalars the stage promises something about.

recording()            context manager; yields the event list of the runs made inside it
validate(ctx, traces)  TLC: every trace is a behaviour of Pipeline (Trace_Pipeline!T_Accepted / T_Complete)
"""
import contextlib
import json
import os
import re
import shutil

from . import tlc

TOL = 1e-6


def _conf_id(name):
    m = re.match(r"^(\d+)(.)$", name)
    return [int(m.group(1)), ord(m.group(2))] if m else [0, 0]


def _dirty(conf):
    n = 0
    for g in conf.groups:
        if g.atom.cysteine_bridge:
            continue
        s = g.model_pka + g.energy_volume + g.energy_local
        for t in ("sidechain", "backbone", "coulomb"):
            for d in g.determinants[t]:
                s += d.value
        if abs(s - g.pka_value) > TOL:
            n += 1
    return n


def _digest(conf):
    out = []
    for g in conf.groups:
        dets = sorted((t, d.label, round(d.value, 9)) for t in ("sidechain", "backbone", "coulomb") for d in g.determinants[t])
        out.append((g.label, g.atom.res_num, round(g.pka_value, 9), tuple(dets)))
    return sorted(out)


@contextlib.contextmanager
def recording():
    import propka.input as pin
    import propka.molecular_container as mc
    import propka.conformation_container as cc
    import propka.version as pv
    events = []
    saved = []

    def wrap(obj, name, after, before=None):
        orig = obj.__dict__[name] if isinstance(obj, type) else getattr(obj, name)

        def w(*a, **k):
            tok = None
            if before is not None:
                try:
                    tok = before(*a, **k)
                except Exception as ex:  # noqa
                    events.append({"ev": "HarnessError", "msg": repr(ex)})
            r = orig(*a, **k)
            try:
                after(r, tok, *a, **k)
            except Exception as ex:  # noqa
                events.append({"ev": "HarnessError", "msg": repr(ex)})
            return r
        saved.append((obj, name, orig))
        setattr(obj, name, w)

    def na_of(mol):
        return [len(mol.conformations[n].atoms) for n in mol.conformation_names]

    def after_read(r, tok, *a, **k):
        confs, names = r
        events.append({"ev": "Read", "confs": [_conf_id(n) for n in names], "na": [len(confs[n].atoms) for n in names]})
    wrap(pin, "read_pdb", after_read)
    wrap(mc.MolecularContainer, "top_up_conformations",
         lambda r, tok, self: events.append({"ev": "TopUp", "na": na_of(self)}))
    wrap(pv.Version, "setup_bonding_and_protonation",
         lambda r, tok, self, mol: events.append({"ev": "Prepare", "na": na_of(mol)}))
    C = cc.ConformationContainer
    wrap(C, "extract_groups", lambda r, tok, self: events.append({"ev": "Extract", "c": _conf_id(self.name), "ng": len(self.groups)}))
    wrap(C, "sort_atoms", lambda r, tok, self: events.append({"ev": "Sort", "c": _conf_id(self.name)}))
    wrap(C, "find_covalently_coupled_groups",
         lambda r, tok, self: events.append({"ev": "CovFind", "c": _conf_id(self.name), "ng": len(self.groups)}))
    wrap(C, "coupling_effects", lambda r, tok, self: events.append({"ev": "Penalise", "c": _conf_id(self.name)}))
    import zlib
    wrap(C, "calculate_pka", lambda r, tok, self, *a, **k: events.append(
        {"ev": "Score", "c": _conf_id(self.name), "ng": len(self.groups), "dirty": _dirty(self),
         "h": zlib.crc32(repr(_digest(self)).encode()) & 0x3fffffff}))
    wrap(C, "find_non_covalently_coupled_groups",
         lambda r, tok, self, *a, **k: events.append({"ev": "NonCov", "c": _conf_id(self.name), "ng": len(self.groups),
                                                     "dirty": _dirty(self), "neutral": tok == _digest(self),
                                                     "display": bool(getattr(self.molecular_container.options,
                                                                             "display_coupled_residues", False))}),
         before=lambda self, *a, **k: _digest(self))
    wrap(mc.MolecularContainer, "average_of_conformations",
         lambda r, tok, self: events.append({"ev": "Average", "dirty": _dirty(self.conformations["AVR"]),
                                             "h": zlib.crc32(repr(_digest(self.conformations["AVR"])).encode()) & 0x3fffffff}))
    wrap(mc.MolecularContainer, "write_pka", lambda r, tok, self, *a, **k: events.append({"ev": "Write"}))
    try:
        yield events
    finally:
        for obj, name, orig in reversed(saved):
            setattr(obj, name, orig)


def split_runs(events):
    """One trace per run: a run starts with its Read event."""
    runs, cur = [], None
    for e in events:
        if e["ev"] == "Read":
            cur = []
            runs.append(cur)
        if cur is None:
            cur = []
            runs.append(cur)
        cur.append(e)
    return runs


def validate(ctx, traces, label="stage traces of real runs"):
    """traces: list of event lists. Returns {index: first rejected event index (1-based)} for rejected traces and the set
    of incomplete ones."""
    if not traces:
        return {}, set()
    wd = tlc.workdir("pipe")
    path = os.path.join(wd, "traces.json")
    with open(path, "w") as fh:
        json.dump([{"events": t} for t in traces], fh)
    res, viol = tlc.trace_check("Trace_Pipeline", ["T_Accepted", "T_Complete"], path, label=label)
    ctx.add_tlc(res, label)
    ctx.traces += len(traces)
    shutil.rmtree(wd, ignore_errors=True)
    rejected = {}
    for m in re.finditer(r'\{"rec":(\d+),"at":(\d+)\}|\{"at":(\d+),"rec":(\d+)\}', res.stdout.replace("\\", "")):
        if m.group(1):
            rejected[int(m.group(1)) - 1] = int(m.group(2))
        else:
            rejected[int(m.group(4)) - 1] = int(m.group(3))
    for i in viol.get("T_Accepted", []):
        rejected.setdefault(i, 0)
    incomplete = set(viol.get("T_Complete", [])) - set(rejected)
    return rejected, incomplete
