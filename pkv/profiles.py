"""Projection of profile-related API values and .pka tables to the integer trace records of Trace_Profiles."""
from decimal import Decimal

from . import pkaparse

NONE = -999999999


def r4(x):
    return int(round(x * 10000))


def micro(x):
    return int(round(x * 1000000))


def milli_str(s):
    """decimal string -> integer milli units, exact"""
    return int((Decimal(str(s)) * 1000).to_integral_value())


def record(mol, grid, window, pka_text, max_groups=None):
    """grid/window: triples of decimal strings as given to -g / -w."""
    conf = mol.conformations["AVR"]
    params = mol.version.parameters
    g = tuple(float(x) for x in grid)
    prof, opt, r80, stab = mol.get_folding_profile(conformation="AVR", grid=g)
    ch = mol.get_charge_profile(conformation="AVR", grid=g)
    groups = [x for x in conf.groups if x.titratable]
    phs = [p for p, _ in prof]
    # group charges are evaluated at the pH the charge profile itself reports for each row
    cphs = [row[0] for row in ch] if ch is not None and len(ch) == len(phs) else phs
    grp = []
    for x in groups:
        grp.append({"lab": x.label, "q": r4(x.charge), "pkf": micro(x.pka_value), "pkm": micro(x.model_pka),
                    "qu": [r4(x.calculate_charge(params, ph=p, state="unfolded")) for p in cphs],
                    "qf": [r4(x.calculate_charge(params, ph=p, state="folded")) for p in cphs],
                    "dg": [r4(x.calculate_folding_energy(params, ph=p, reference="neutral")) for p in phs],
                    "hf": r4(x.calculate_charge(params, ph=x.pka_value, state="folded")),
                    "hu": r4(x.calculate_charge(params, ph=x.model_pka, state="unfolded"))})
    # isoelectric points, with the bisection recorded through the charge callback
    piw = (0.0, 14.0)
    prec = 1e-4
    calls = []
    orig = conf.calculate_charge

    def spy(parameters, ph):
        res = orig(parameters, ph=ph)
        calls.append((ph, res))
        return res
    conf.calculate_charge = spy
    try:
        pif, piu = mol.get_pi(conformation="AVR")
    finally:
        del conf.calculate_charge
    # split the recorded calls into the folded search (first) and the unfolded search
    start = (piw[0] + piw[1]) / 2
    idx = [k for k, (p, _) in enumerate(calls) if p == start]
    bisf = bisu = []
    if len(idx) >= 2:
        a, b = idx[0], idx[1]
        bisf = [[micro(p), 1 if q[1] > 0 else 0] for p, q in calls[a:b]][:-1]
        bisu = [[micro(p), 1 if q[0] > 0 else 0] for p, q in calls[b:]][:-1]

    def q(ph):
        return orig(params, ph=ph)
    def sg(x):
        return 0 if abs(x) < 1e-9 else (1 if x > 0 else -1)
    pis = [sg(q(pif - prec)[1]), sg(q(pif + prec)[1]), sg(q(piu - prec)[0]), sg(q(piu + prec)[0]),
           sg(q(piw[0])[1]), sg(q(piw[1])[1]), sg(q(piw[0])[0]), sg(q(piw[1])[0])]
    piq = [r4(q(pif - prec)[1]), r4(q(pif + prec)[1]), r4(q(piu - prec)[0]), r4(q(piu + prec)[0]),
           r4(q(piw[0])[1]), r4(q(piw[1])[1]), r4(q(piw[0])[0]), r4(q(piw[1])[0])]
    f = pkaparse.parse(pka_text) if pka_text else None
    # the report written for each single conformation states that conformation's own pI
    confpi = []
    confch = []
    if len(mol.conformation_names) > 1:
        import os as _os
        import tempfile as _tf
        import propka.output as pout
        for cn in mol.conformation_names:
            # the file propka.output.write_pka writes for this conformation (its public per-conformation writer)
            with _tf.TemporaryDirectory() as td_:
                fn_ = _os.path.join(td_, "conf.pka")
                pout.write_pka(mol, mol.version.parameters, filename=fn_, conformation=cn, reference=mol.options.reference,
                               verbose=False)
                sect = open(fn_).read()
            fc_ = pkaparse.parse(sect)
            api_ = mol.get_charge_profile(conformation=cn, grid=g)
            if api_ is not None:
                confch.append([[r_[1], r_[2]] for r_ in fc_["charge_rows"]] and
                              [[fr[1], fr[2], r4(ar[1]), r4(ar[2])] for fr, ar in zip(fc_["charge_rows"], api_)]
                              if len(fc_["charge_rows"]) == len(api_) else [[0, 0, 999999, 999999]])
            import re as _re
            m_ = _re.search(r"The pI is\s*(-?\d+\.\d\d) \(folded\) and\s*(-?\d+\.\d\d) \(unfolded\)", sect)
            fp = [pkaparse.cents(m_.group(1)), pkaparse.cents(m_.group(2))] if m_ else None
            af, au = mol.get_pi(conformation=cn)
            if fp:
                confpi.append([fp[0], fp[1], micro(af), micro(au)])
    rec = {
        "confpi": confpi, "confch": confch,
        "g": [milli_str(x) for x in grid], "w": [milli_str(x) for x in window],
        "ph": [micro(p) for p in phs], "dg": [r4(d) for _, d in prof],
        "chph": [micro(r[0]) for r in ch], "ch": [[r4(r[1]), r4(r[2])] for r in ch],
        "opt": [micro(opt[0]), r4(opt[1])] if opt[0] is not None else [NONE, NONE],
        "r80": [micro(r80[0]), micro(r80[1])] if r80[0] is not None else [NONE, NONE],
        "stab": [micro(stab[0]), micro(stab[1])] if stab[0] is not None else [NONE, NONE],
        "grp": grp, "pi": [micro(pif), micro(piu)], "piq": piq, "pis": pis, "piw": [micro(piw[0]), micro(piw[1])],
        "bisf": bisf, "bisu": bisu,
        "file": {"fold": f["fold_rows"] if f else [], "charge": f["charge_rows"] if f else [],
                 "pi": f["pi"] if f and f["pi"] else [NONE, NONE], "opt": f["opt"] if f and f["opt"] else [NONE, NONE]},
    }
    return rec
