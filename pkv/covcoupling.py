"""Covalent coupling (tla/CovalentCoupling.tla): model checking, spec -> code replay and code -> spec trace validation.

This part of the specification goes beyond the listed properties (DESIGN.md 11.7): a disagreement is reported as a
note in the evidence of the hosting check, never as a VIOLATION.
"""
import json
import os

from . import pdbio, runner, tlc

TYPES = {"O.co2": ("OD1", "O"), "N.pl3": ("NH1", "N"), "-": ("C1", "C")}


def stub_molecule(cfg):
    """Real Atom / Group / ConformationContainer objects for an emitted configuration."""
    from propka.atom import Atom
    from propka.group import Group
    from propka.conformation_container import ConformationContainer
    from propka.parameters import Parameters
    from propka.input import read_parameter_file

    class _Opt:
        titrate_only = None

    class _Mol:
        options = _Opt()
    with runner.quiet():
        params = read_parameter_file("propka.cfg", Parameters())
    conf = ConformationContainer("1A", params, _Mol())
    n = len(cfg["nbr"])
    atoms = []
    for a in range(1, n + 1):
        ty = cfg["ty"][a - 1]
        name, el = TYPES[ty]
        at = Atom(pdbio.atom_line("HETATM", a, name, " ", "LIG", "A", 100 + a, " ", 1500 * a, 0, 0, elem=el))
        at.sybyl_type = ty if ty != "-" else "C.3"
        atoms.append(at)
        conf.atoms.append(at)
    for a in range(1, n + 1):
        atoms[a - 1].bonded_atoms = [atoms[b - 1] for b in cfg["nbr"][a - 1]]
    groups = {}
    for a in cfg["host"]:
        g = Group(atoms[a - 1])
        g.titratable = True
        g.type = "COO" if cfg["q"][a - 1] < 0 else "ARG"
        g.charge = float(cfg["q"][a - 1])
        g.pka_value = float(cfg["pk"][a - 1])
        g.parameters = params
        atoms[a - 1].group = g
        groups[a] = g
        conf.groups.append(g)
    return conf, atoms, groups


def observe_stub(cfg, order_seed=0):
    """Drive the real code on the stub molecule; return the trace record."""
    conf, atoms, groups = stub_molecule(cfg)
    with runner.quiet():
        conf.find_covalently_coupled_groups()
    idx = {id(g): a for a, g in groups.items()}
    n = len(cfg["nbr"])
    partners = [[] for _ in range(n)]
    for a, g in groups.items():
        partners[a - 1] = sorted(idx[id(h)] for h in g.covalently_coupled_groups)
    from propka.group import Group
    systems = [sorted(idx[id(g)] for g in s)
               for s in conf.get_coupled_systems(conf.get_covalently_coupled_groups(), Group.get_covalently_coupled_groups)]
    with runner.quiet():
        conf.coupling_effects()
    pen, tie = [], []
    for s in systems:
        t = []
        for a in s:
            ctg = groups[a].coupled_titrating_group
            t.append([a, idx[id(ctg)] if ctg is not None else 0])
        tie.append(t)
        pen.append(sorted(a for a, x in t if x != 0))
    return {"nbr": [sorted(x) for x in cfg["nbr"]], "host": sorted(cfg["host"]), "ty": cfg["ty"], "q": cfg["q"], "pk": cfg["pk"],
            "partners": partners, "systems": systems, "pen": pen, "tie": tie}


def observe_run(mol, name):
    """One record per conformation of a real run: the bond neighbourhood (<= 4 bonds) of every titratable group atom."""
    recs = []
    for cname in mol.conformation_names:
        conf = mol.conformations[cname]
        hosts = [g for g in conf.groups if g.titratable]
        if not hosts:
            continue
        seen, order = {}, []

        def num(at):
            if id(at) not in seen:
                seen[id(at)] = len(order) + 1
                order.append(at)
            return seen[id(at)]
        frontier = [g.atom for g in hosts]
        for at in frontier:
            num(at)
        for _ in range(4):
            nxt = []
            for at in frontier:
                for b in at.bonded_atoms:
                    if id(b) not in seen:
                        num(b)
                        nxt.append(b)
            frontier = nxt
        inside = set(seen)
        nbr = [sorted(seen[id(b)] for b in at.bonded_atoms if id(b) in inside) for at in order]
        gidx = {id(g): seen[id(g.atom)] for g in hosts}
        # two titratable groups on one atom cannot be told apart in this projection: skip such molecules
        if len(set(gidx.values())) != len(gidx):
            continue
        n = len(order)
        ty = [str(at.sybyl_type or "-") for at in order]
        q = [1] * n
        pk = [0] * n
        partners = [[] for _ in range(n)]
        for g in hosts:
            a = gidx[id(g)]
            q[a - 1] = -1 if g.charge < 0 else 1
            pk[a - 1] = int(round(g.pka_value * 1e6))
            partners[a - 1] = sorted(gidx[id(h)] for h in g.covalently_coupled_groups if id(h) in gidx)
        from propka.group import Group
        systems = [sorted(gidx[id(g)] for g in s if id(g) in gidx)
                   for s in conf.get_coupled_systems(conf.get_covalently_coupled_groups(), Group.get_covalently_coupled_groups)]
        by_atom = {gidx[id(g)]: g for g in hosts}
        pen, tie = [], []
        for s in systems:
            t = [[a, gidx.get(id(by_atom[a].coupled_titrating_group), 0) if by_atom[a].coupled_titrating_group is not None else 0]
                 for a in s]
            tie.append(t)
            pen.append(sorted(a for a, x in t if x != 0))
        recs.append({"nbr": nbr, "host": sorted(gidx.values()), "ty": ty, "q": q, "pk": pk, "partners": partners,
                     "systems": systems, "pen": pen, "tie": tie, "_meta": {"input": name, "conformation": cname, "atoms": n,
                                                                            "hosts": len(hosts), "systems": len(systems)}})
    return recs


INV_STUB = ["T_Partners", "T_MechPartners", "T_Systems", "T_Penalty", "T_SomeoneTitrates"]
# in a real run the pKa values at the moment of the penalty rule are not the final ones (penalised determinants are
# removed afterwards), so only the structure of the outcome is validated there
INV_RUN = ["T_Partners", "T_MechPartners", "T_Systems", "T_SomeoneTitrates"]


def validate(ctx, recs, invs, label):
    if not recs:
        return {}
    wd = tlc.workdir("cov")
    path = os.path.join(wd, "trace.json")
    with open(path, "w") as fh:
        json.dump([{k: v for k, v in r.items() if k != "_meta"} for r in recs], fh)
    res, viol = tlc.trace_check("Trace_CovCoupling", invs, path, constants={"MaxBonds": 3}, label=label)
    ctx.add_tlc(res, label)
    ctx.traces += len(recs)
    import shutil
    shutil.rmtree(wd, ignore_errors=True)
    return viol


def run(ctx, real_cases=()):
    """M + G + T; everything is reported through ctx.extra / ctx.note."""
    out = {}
    r = tlc.run("MC_CovalentCoupling", "MC_CovalentCoupling.cfg" if ctx.thorough() else "MC_CovalentCoupling_q.cfg", timeout=3000)
    ctx.add_tlc(r, "covalent coupling: recursive search = bond-distance rule; systems = components; penalty rule")
    out["model_checked"] = bool(r.ok)
    if not r.ok:
        ctx.note("BEYOND-PROPERTIES: MC_CovalentCoupling: " + str(r.invariant_violated))
    if ctx.thorough():
        r2 = tlc.run("MC_CovalentCoupling", "MC_CovalentCoupling_tie.cfg", timeout=3000)
        out["selftest_tied_to_itself_on_exact_ties_refuted"] = (r2.invariant_violated == "TiedOK")
    g = tlc.run("MC_CovalentCoupling", "Gen_CovalentCoupling.cfg" if ctx.thorough() else "Gen_CovalentCoupling_q.cfg",
                workers=1, timeout=3000)
    ctx.add_tlc(g, "covalent coupling configuration generator")
    recs = []
    stride = 7 if ctx.thorough() else 41        # (every molecule of the thorough generator took 40 min of replay)
    for n, c in enumerate(g.printed):
        if n % stride != ctx.seed % stride:
            continue
        cfg = {"nbr": [sorted(x) for x in c["nbr"]], "host": sorted(c["host"]), "ty": c["ty"], "q": c["q"], "pk": c["pk"]}
        ctx.count()
        try:
            recs.append(observe_stub(cfg))
        except Exception as ex:  # noqa
            ctx.note(f"BEYOND-PROPERTIES: covalent coupling stub raised {ex!r} on {cfg}")
    v = validate(ctx, recs, INV_STUB, "covalent coupling: generated molecules through the real code")
    out["generated_molecules"] = len(recs)
    out["generated_disagreements"] = {k: len(x) for k, x in v.items()}
    for inv, idxs in sorted(v.items()):
        ctx.note(f"BEYOND-PROPERTIES: covalent coupling: {inv} fails on generated molecule {json.dumps(recs[idxs[0]])[:600]}")
    rr = []
    for name, mol in real_cases:
        rr += observe_run(mol, name)
    v2 = validate(ctx, rr, INV_RUN, "covalent coupling: conformations of real runs")
    out["real_conformations"] = len(rr)
    out["real_conformations_with_systems"] = sum(1 for r_ in rr if r_["systems"])
    out["real_disagreements"] = {k: len(x) for k, x in v2.items()}
    for inv, idxs in sorted(v2.items()):
        ctx.note(f"BEYOND-PROPERTIES: covalent coupling: {inv} fails on {rr[idxs[0]]['_meta']}")
    ctx.extra["covalent_coupling"] = out
    return out
