"""Binding of tla/MC_Display.tla (print_out_swaps / print_system under -d) to the real code.

G  every TLC-emitted (determinant lists of three coupled groups, iteration order of the set) is replayed through the
   real NonCovalentlyCoupledGroups.print_out_swaps on real Group/Determinant objects; the coupled system is handed over
   as a set-like object that iterates in the emitted order (any order is a possible address pattern of identity-hashed
   groups).  Declarative face (C03): the resulting determinant lists do not depend on that order.
"""
import json

from . import tlc


class ForcedSet:
    """A set of groups (identity) that iterates in a given order."""
    def __init__(self, items):
        self.items = list(items)

    def __iter__(self):
        return iter(self.items)

    def __len__(self):
        return len(self.items)

    def __contains__(self, x):
        return any(x is y for y in self.items)


class StubConformation:
    def __init__(self, groups, order):
        self.groups = groups
        self.order = order
        self.parameters = None

    def __str__(self):
        return "stub"

    def get_non_covalently_coupled_groups(self):
        return [g for g in self.groups if g.non_covalently_coupled_groups]

    def get_coupled_systems(self, groups, get_coupled_groups):
        yield ForcedSet([self.groups[k - 1] for k in self.order])

    def calculate_folding_energy(self, ph=None, reference=None):
        return 0.0


def build(cfg):
    from propka.determinant import Determinant
    from .props import c05
    gs = c05.stub_groups(3)
    for i, g in enumerate(gs):
        g.label = "L%d" % (i + 1)
        g.model_pka = 5.0
        g.charge = -1.0
        g.intrinsic_pka = 5.0
    for i, g in enumerate(gs):
        for kind, key in (("coulomb", "cb"), ("sidechain", "sc")):
            g.determinants[kind] = [Determinant(gs[d["to"] - 1], float(d["v"])) for d in cfg["det"][i][key]]
        g.non_covalently_coupled_groups = [h for h in gs if h is not g]
        g.calculate_total_pka()
    return gs


def lists(gs):
    idx = {id(g): i + 1 for i, g in enumerate(gs)}
    return [{k2: [[d.label, int(d.value), idx[id(d.group)]] for d in g.determinants[k1]]
             for k1, k2 in (("coulomb", "cb"), ("sidechain", "sc"))} for g in gs]


def spec_lists(x):
    return [{k: [[d["lab"], d["v"], d["to"]] for d in g[k]] for k in ("cb", "sc")} for g in x]


def real_display(cfg, order):
    from propka.coupled_groups import NCCG
    from propka.parameters import Parameters
    NCCG.parameters = NCCG.parameters or Parameters()
    gs = build(cfg)
    NCCG.print_out_swaps(StubConformation(gs, order))
    return lists(gs), [g.pka_value for g in gs]


def run(ctx, thorough=False):
    """Returns a list of (key, message, payload) violations; notes go to ctx."""
    from . import runner
    out = []
    r = tlc.run("MC_Display", "MC_Display.cfg" if thorough else "MC_Display_q.cfg", timeout=1800)
    ctx.add_tlc(r, "display of coupled systems (-d): result independent of the set's iteration order; conservation")
    if not r.ok:
        raise tlc.TLCError("spec-level failure in MC_Display:\n" + r.stdout[-3000:])
    # binding self-test: the mechanism that takes the set's own order (the code before the repair F12) is refuted
    r2 = tlc.run("MC_Display", "MC_Display_setorder.cfg", timeout=1800)
    ctx.extra["selftest_display_in_set_order_refuted"] = (r2.invariant_violated == "Deterministic")
    if r2.invariant_violated != "Deterministic":
        raise tlc.TLCError("self-test failed: the display mechanism that uses the set's own order was not refuted")
    g = tlc.run("MC_Display", "Gen_Display.cfg", workers=1, timeout=1800)
    ctx.add_tlc(g, "display configuration generator (determinant lists x iteration orders)")
    if not g.ok:
        raise tlc.TLCError("generator failed:\n" + g.stdout[-3000:])
    stride = 1 if thorough else 3
    ref = {}
    drift = None
    n_dep = 0
    with runner.quiet():
        for n, c in enumerate(g.printed):
            if n % stride != ctx.seed % stride:
                continue
            key = json.dumps(c["det"], sort_keys=True)
            ctx.count()
            try:
                if key not in ref:
                    ref[key] = real_display(c, [1, 2, 3])
                got = real_display(c, list(c["order"]))
            except Exception as ex:  # noqa
                out.append(("display:exception", f"print_out_swaps on {c['det']} in order {c['order']}: {ex!r}", {"config": c}))
                break
            if any(len(x["cb"]) + len(x["sc"]) > 1 for x in spec_lists(c["det"])):
                ctx.nontriv(("display", key, tuple(c["order"])))
            if got[0] != ref[key][0] or any(abs(a - b) > 1e-9 for a, b in zip(got[1], ref[key][1])):
                n_dep += 1
                if n_dep == 1:
                    out.append(("display:depends-on-set-order",
                                f"-d display of the coupled system {c['det']}: iterating the set as {c['order']} gives {got[0]}, "
                                f"as [1, 2, 3] gives {ref[key][0]}", {"config": c}))
            if drift is None and c["order"] == [1, 2, 3] and got[0] != spec_lists(c["expected"]):
                drift = f"{c['det']}: real {got[0]}, model {spec_lists(c['expected'])}"
    ctx.traces += 1
    ctx.extra["display_configurations_replayed"] = len(ref)
    if drift:
        ctx.note("MODEL-DRIFT: display result differs from MC_Display!Display (order independence itself is decided on the real code): " + drift)
    return out
