"""Two real runs expressed in one identifier space -> Trace_Rel records (metamorphic relations)."""
import json
import os

from . import observe, pkaparse, tlc

KEEP = ("gid", "type", "rtype", "label", "chain", "num", "ic", "resn", "het", "q100", "model6", "titr", "bridged", "use",
        "pka6", "ev6", "el6", "nv", "bur4", "sc", "bb", "cb", "ncc", "cov", "pen")


def identity(p):
    return p


def _remap_builder(idx_a, idx_b, T):
    cache = {}

    def remap(gid):
        if gid < 0:
            return gid
        if gid not in cache:
            r = idx_a.recs[gid]
            img = T((r.x, r.y, r.z))
            cache[gid] = idx_b.by_xyz.get(tuple(img), -(gid + 2))
        return cache[gid]
    return remap


def _groups(rec, remap=None):
    out = {}
    for cname, gl in rec["G"].items():
        lst = []
        for g in gl:
            h = {k: g[k] for k in KEEP}
            if remap:
                h["gid"] = remap(h["gid"])
                for kind in ("sc", "bb", "cb"):
                    h[kind] = [[remap(d[0])] + d[1:] for d in h[kind]]
                h["ncc"] = sorted(remap(x) for x in h["ncc"])
                h["cov"] = sorted(remap(x) for x in h["cov"])
                h["pen"] = remap(h["pen"]) if h["pen"] >= 0 else -1
            for kind in ("sc", "bb", "cb"):
                h[kind] = sorted(h[kind], key=lambda d: d[0])        # bags: order by partner, stable
            lst.append(h)
        out[cname] = sorted(lst, key=lambda g: g["gid"])
    return out


def bonds_of(run, idx, remap=None, conf=None):
    conf = conf or run.mol.conformation_names[0]
    pairs = set()
    for a in run.mol.conformations[conf].atoms:
        ga = idx.gid(a)
        if ga < 0:
            continue
        for b in a.bonded_atoms:
            gb = idx.gid(b)
            if gb < 0:
                continue
            x, y = (remap(ga), remap(gb)) if remap else (ga, gb)
            pairs.add((min(x, y), max(x, y)))
    return sorted([list(p) for p in pairs])


def hydrogens_of(run, idx, T=identity, remap=None, conf=None):
    """Hydrogens that are not input lines: [parent gid, x, y, z] (milli-Angstrom), A's mapped by T."""
    conf = conf or run.mol.conformation_names[0]
    out = []
    for a in run.mol.conformations[conf].atoms:
        if a.element != "H" or idx.gid(a) >= 0:
            continue
        heavy = [b for b in a.bonded_atoms if b.element != "H"]
        parent = idx.gid(heavy[0]) if len(heavy) >= 1 else -1
        if remap and parent >= 0:
            parent = remap(parent)
        x, y, z = T(observe.key_of(a))
        out.append([parent if len(heavy) == 1 else -9 - len(heavy), x, y, z])
    return sorted(out)


def present(rec_full):
    """(gid, type) of every group of the first conformation, reported or not."""
    return rec_full


def relate(kind, run_a, text_a, run_b, text_b, T=identity, eps=2, scope_all_a=False, with_bonds=False, with_hyd=False,
           textcmp=False, epsc=1, meta=None, present=False, sc_filter=None, roworder=False, ion_filter=None, conv_b=1):
    rec_a, idx_a = observe.observe(run_a, text_a, with_input=False, all_groups=False)
    rec_b, idx_b = observe.observe(run_b, text_b, with_input=False, all_groups=False)
    remap = _remap_builder(idx_a, idx_b, T)
    rel = {"kind": kind, "ca": rec_a["confs"], "cb": rec_b["confs"], "A": _groups(rec_a, remap), "B": _groups(rec_b),
           "eps": eps, "epsc": epsc, "scope": [], "hasbonds": 0, "bondsA": [], "bondsB": [], "hashyd": 0, "hydA": [], "hydB": [],
           "textcmp": 0, "textsame": 0, "presentA": [], "presentB": [], "scA": [], "scB": [], "rowcmp": 0, "rowsA": [], "rowsB": [],
           "ion": [], "conv": conv_b, "meta": meta or {}}
    if scope_all_a:
        rel["scope"] = sorted(remap(i) for i, r in enumerate(idx_a.recs) if r is not None)
    if with_bonds:
        rel["hasbonds"] = 1
        rel["bondsA"] = bonds_of(run_a, idx_a, remap)
        rel["bondsB"] = bonds_of(run_b, idx_b)
        if scope_all_a:
            sc = set(rel["scope"])
            rel["bondsB"] = [p for p in rel["bondsB"] if p[0] in sc and p[1] in sc]
    if with_hyd:
        rel["hashyd"] = 1
        rel["hydA"] = hydrogens_of(run_a, idx_a, T, remap)
        rel["hydB"] = hydrogens_of(run_b, idx_b)
    if textcmp:
        rel["textcmp"] = 1
        rel["textsame"] = 1 if (run_a.pka_text is not None and run_b.pka_text is not None and
                                pkaparse.strip_date(run_a.pka_text) == pkaparse.strip_date(run_b.pka_text)) else 0
    if roworder and run_a.pka_text is not None and run_b.pka_text is not None:
        # the order of the rows of the written file, as residue identities (input lines) in A's identifier space
        rel["rowcmp"] = 1
        for tag, run, idx, rm in (("rowsA", run_a, idx_a, remap), ("rowsB", run_b, idx_b, None)):
            f = pkaparse.parse(run.pka_text)
            pool = {}
            for g in run.mol.conformations["AVR"].groups:
                pool.setdefault(" ".join(g.label.split()), []).append(rm(idx.gid(g.atom)) if rm else idx.gid(g.atom))
            rows = []
            for sect in ("det_groups", "summary"):
                used = {}
                for x in f[sect]:
                    lab = " ".join(x["label"].split())
                    k = used.get(lab, 0)
                    used[lab] = k + 1
                    ids = pool.get(lab, [])
                    rows.append(ids[k] if k < len(ids) else -2)
                rows.append(-9)
            rel[tag] = rows
    if present:
        for tag, run, idx, rm in (("presentA", run_a, idx_a, remap), ("presentB", run_b, idx_b, None)):
            conf = run.mol.conformations[run.mol.conformation_names[0]]
            rel[tag] = sorted([(rm(idx.gid(g.atom)) if rm else idx.gid(g.atom)), g.type] for g in conf.groups)
            # who is hydrogen-bonded to whom (side-chain determinants), for every group whether it titrates or not
            sc = []
            for g in conf.groups:
                ps = []
                for d in g.determinants["sidechain"]:
                    pg = getattr(d.group, "group", d.group)
                    pa = getattr(pg, "atom", None)
                    if pa is not None and (sc_filter is None or sc_filter(g.type, getattr(pg, "type", "?"))):
                        ps.append(rm(idx.gid(pa)) if rm else idx.gid(pa))
                if ps:
                    sc.append([(rm(idx.gid(g.atom)) if rm else idx.gid(g.atom)), sorted(ps)])
            rel["sc" + tag[-1]] = sorted(sc)
    if present and ion_filter is not None:
        # iterative acid-base pairs hydrogen-bonded in A (value by the geometric rule, not an exception value) of which
        # exactly one member titrates in B: <<present in B, acid pKa, base pKa, hb>> with B's pKa values
        ca_ = run_a.mol.conformations[run_a.mol.conformation_names[0]]
        cb_ = run_b.mol.conformations[run_b.mol.conformation_names[0]]
        gb_ = {idx_b.gid(g.atom): g for g in cb_.groups}
        seen_ = set()
        for g in ca_.groups:
            for d in g.determinants["sidechain"]:
                h = getattr(d.group, "group", d.group)
                if getattr(h, "atom", None) is None or not ion_filter(g, h, d.value):
                    continue
                ka, kh = remap(idx_a.gid(g.atom)), remap(idx_a.gid(h.atom))
                if (min(ka, kh), max(ka, kh)) in seen_ or ka not in gb_ or kh not in gb_:
                    continue
                seen_.add((min(ka, kh), max(ka, kh)))
                g2, h2 = gb_[ka], gb_[kh]
                if bool(g2.titratable) == bool(h2.titratable):
                    continue
                pres = any(getattr(x.group, "group", x.group) is h2 for x in g2.determinants["sidechain"]) or \
                    any(getattr(x.group, "group", x.group) is g2 for x in h2.determinants["sidechain"])
                acid, base = (g2, h2) if g.charge < 0 else (h2, g2)
                rel["ion"].append([1 if pres else 0, int(round(acid.pka_value * 1e6)), int(round(base.pka_value * 1e6)),
                                   int(round(abs(d.value) * 1e6))])
    return rel


REL_INV = ["SameConfs", "SameAll", "SameUpToLabels", "SameHeavy", "SameBonds", "Part", "EnvKept", "HydEquivariant", "TextSame"]


def validate(ctx, rels, invariants=None, label="relations"):
    """Returns {invariant: [rel, ...]} for violated ones."""
    if not rels:
        return {}
    out = {}
    chunk = 300          # (one TLC run per 300 pairs: a thorough sweep records thousands, and the JSON of one run stays small)
    for k0 in range(0, len(rels), chunk):
        part = rels[k0:k0 + chunk]
        wd = tlc.workdir("rel")
        tf = os.path.join(wd, "rels.json")
        json.dump([{k: v for k, v in r.items() if k != "meta"} for r in part], open(tf, "w"))
        res, viol = tlc.trace_check("Trace_Rel", invariants or REL_INV, tf, timeout=3000)
        ctx.add_tlc(res, "trace validation of %s (%d related run pairs%s)" % (label, len(part), "" if len(rels) <= chunk else ", part %d" % (k0 // chunk + 1)))
        for inv, idxs in viol.items():
            out.setdefault(inv, []).extend(part[i] for i in idxs)
    ctx.traces += len(rels)
    return out


def diff_summary(rel, limit=4):
    """Human-readable first differences between A and B of a relation record (for violation messages)."""
    out = []
    for c in rel["A"]:
        ga = {g["gid"]: g for g in rel["A"][c]}
        gb = {g["gid"]: g for g in rel.get("B", {}).get(c, [])}
        if rel["scope"]:
            sc = set(rel["scope"])
            gb = {k: v for k, v in gb.items() if k in sc}
        for k in sorted(set(ga) | set(gb)):
            a, b = ga.get(k), gb.get(k)
            if a is None or b is None:
                out.append(f"{c}: group {(a or b)['label']!r} only in {'A' if b is None else 'B'}")
            else:
                for f in ("type", "q100", "model6", "titr", "bridged", "pka6", "ev6", "el6", "nv", "bur4"):
                    if a[f] != b[f] and (f not in ("pka6", "ev6", "el6") or abs(a[f] - b[f]) > rel["eps"]):
                        out.append(f"{c}: {a['label']!r}/{b['label']!r} {f}: {a[f]} vs {b[f]}")
                        break
                else:
                    for kind in ("sc", "bb", "cb"):
                        if [(d[0], d[2]) for d in a[kind]] != [(d[0], d[2]) for d in b[kind]]:
                            da = [(d[1], d[2]) for d in a[kind]]
                            db = [(d[1], d[2]) for d in b[kind]]
                            if len(da) != len(db) or any(abs(x[1] - y[1]) > rel["eps"] for x, y in zip(da, db)):
                                out.append(f"{c}: {a['label']!r} {kind}: {da} vs {db}")
                                break
            if len(out) >= limit:
                return out
    return out
