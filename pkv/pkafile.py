"""Line classes of a written .pka file (tokens of tla/PkaFile.tla) and the Trace_PkaFile records."""
import json
import os
import re

from . import tlc

_NUM = r"-?\d+\.\d+"
_RULES = [
    ("ver", re.compile(r"^propka\S*\s+\d{4}-\d\d-\d\d\s*$")),
    ("blank", re.compile(r"^\s*$")),
    ("rule", re.compile(r"^[-\s]*-[-\s]*$")),
    ("dethdr", re.compile(r"^\s+DESOLVATION  EFFECTS\s+SIDECHAIN\s+BACKBONE\s+COULOMBIC\s*$|^ RESIDUE\s+pKa\s+BURIED\s+REGULAR\s+RE\s+HYDROGEN BOND\s+HYDROGEN BOND\s+INTERACTION\s*$")),
    ("note", re.compile(r"^Coupled residues \(marked \*\) were detected\.|^or -d option for detailed information\.\s*$")),
    ("sumhdr", re.compile(r"^SUMMARY OF THIS PREDICTION\s*$")),
    ("sumcols", re.compile(r"^\s+Group\s+pKa\s+model-pKa\s+ligand atom-type\s*$")),
    ("foldhdr", re.compile(r"^Free energy of\s+\S+ \(kcal/mol\) as a function of pH \(using \S+ reference\)\s*$")),
    ("nofold", re.compile(r"^Could not determine folding profile\s*$")),
    ("opt", re.compile(r"^The pH of optimum stability is\s*" + _NUM + r" for which the free energy is\s*" + _NUM + r" kcal/mol at 298K\s*$")),
    ("noopt", re.compile(r"^Could not determine pH optimum\s*$")),
    ("r80", re.compile(r"^The free energy is within 80 % of maximum at pH\s*" + _NUM + r" to\s*" + _NUM + r"\s*$")),
    ("nor80", re.compile(r"^Could not determine pH values where the free energy is within 80 % of minimum\s*$")),
    ("stab", re.compile(r"^The free energy is negative in the range\s*" + _NUM + r" -\s*" + _NUM + r"\s*$")),
    ("nostab", re.compile(r"^Could not determine the pH-range where the free energy is negative\s*$")),
    ("chhdr", re.compile(r"^Protein charge of folded and unfolded state as a function of pH\s*$")),
    ("chcols", re.compile(r"^\s+pH\s+unfolded\s+folded\s*$")),
    ("noch", re.compile(r"^Could not determine charge profile\s*$")),
    ("pi", re.compile(r"^The pI is\s*" + _NUM + r" \(folded\) and\s*" + _NUM + r" \(unfolded\)\s*$")),
    ("nopi", re.compile(r"^Could not determine the pI\s*$")),
    ("ch", re.compile(r"^\s*" + _NUM + r"\s+" + _NUM + r"\s+" + _NUM + r"\s*$")),
    ("fold", re.compile(r"^\s*" + _NUM + r"\s+" + _NUM + r"\s*$")),
    # a determinant row: nine-character label, then either the pKa columns (first row of a group) or blanks up to the
    # determinant columns (continuation row); three determinant cells "value label" at fixed columns
    ("g1", re.compile(r"^\S.{8} \s*-?\d+\.\d\d[* ]\s+\d+ %\s+" + _NUM + r"\s+\d+\s+" + _NUM + r"\s+\d+\s+(" + _NUM + r" .{9}\s*){3}$")),
    ("gc", re.compile(r"^\S.{8}\s{40,}(" + _NUM + r" .{9}\s*){3}$")),
    ("sum", re.compile(r"^   \S.{8}\s+-?\d+\.\d\d\s+-?\d+\.\d\d\s.*$")),
]


def classify(line, before_table):
    for name, rx in _RULES:
        if rx.match(line):
            return name
    return "pre" if before_table else "other"


def tokens(text):
    out = []
    before = True
    for ln in text.split("\n")[:-1] if text.endswith("\n") else text.split("\n"):
        t = classify(ln, before)
        if t == "dethdr":
            before = False
        if before and t not in ("ver", "blank", "rule", "dethdr"):
            t = "pre"
        out.append(t)
    return out


def record(run, name=""):
    """Trace_PkaFile record of a finished run (file of the averaged conformation, as run.write_pka writes it)."""
    mol = run.mol
    toks = tokens(run.pka_text)
    ch = mol.get_charge_profile(conformation="AVR", grid=mol.options.grid)
    prof, (ph_opt, dg_opt), (dg_min, dg_max), (ph_min, ph_max) = mol.get_folding_profile(
        conformation="AVR", reference=mol.options.reference, grid=mol.options.grid)
    pif, piu = mol.get_pi(conformation="AVR")
    conf = mol.conformations["AVR"]
    return {"name": name, "toks": toks,
            "nch": -1 if ch is None else len(ch), "hasfold": 0 if prof is None else 1,
            "hasopt": 0 if (ph_opt is None or dg_opt is None) else 1, "hasr80": 0 if (dg_min is None or dg_max is None) else 1,
            "hasstab": 0 if (ph_min is None or ph_max is None) else 1, "haspi": 0 if (pif is None or piu is None) else 1,
            "note": 1 if (conf.non_covalently_coupled_groups and not mol.options.display_coupled_residues) else 0}


INVS = ["F_Accepted", "F_TablesAgree", "F_Profiles", "F_Note"]


def selftest(ctx, rec):
    """Binding self-test: a real file with its charge table removed, its summary doubled, its pI line dropped and two
    sections swapped must each be rejected (F_Accepted or F_Profiles)."""
    import copy
    t = rec["toks"]
    bad = []
    a = copy.deepcopy(rec); a["toks"] = [x for x in t if x not in ("chcols", "ch")]; bad.append(a)
    k = t.index("sumhdr")
    b = copy.deepcopy(rec); b["toks"] = t[:k] + [x for x in t if x in ("sumhdr", "sumcols", "sum")] + t[k:]; bad.append(b)
    c = copy.deepcopy(rec); c["toks"] = [x for x in t if x not in ("pi", "nopi")]; bad.append(c)
    kf, kc = t.index("foldhdr"), t.index("chhdr")
    d = copy.deepcopy(rec); d["toks"] = t[:kf] + t[kc:-1] + t[kf:kc] + t[-1:]; bad.append(d)
    e = copy.deepcopy(rec); e["toks"] = [("noch" if x == "chcols" else x) for x in t if x != "ch"]; bad.append(e)
    viol = validate(ctx, bad, "binding self-test: damaged files")
    hit = set()
    for inv in ("F_Accepted", "F_Profiles", "F_TablesAgree"):
        hit |= set(viol.get(inv, []))
    ok = hit == set(range(len(bad)))
    ctx.extra["selftest_damaged_pka_files_rejected"] = ok
    if not ok:
        raise tlc.TLCError("self-test failed: damaged .pka layouts were accepted: %s" % sorted(set(range(len(bad))) - hit))


def validate(ctx, recs, label="written .pka files"):
    """Returns {invariant: [record index, ...]} for violated invariants."""
    if not recs:
        return {}
    wd = tlc.workdir("pkafile")
    tf = os.path.join(wd, "files.json")
    json.dump(recs, open(tf, "w"))
    res, viol = tlc.trace_check("Trace_PkaFile", INVS, tf, timeout=3000)
    ctx.add_tlc(res, "layout of %s (%d files) against PkaFile!Apply" % (label, len(recs)))
    ctx.traces += len(recs)
    return viol
