"""pkv - PROPKA verification harness (TLA+/TLC model-based)."""
