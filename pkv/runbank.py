"""Runs of the real code over a corpus, projected to Trace_Run records (shared by C01, C02, C15, C16, ...)."""
import json
import os
import random
import re

from . import corpus, observe, runner, tlc


def _bridged_positions(inres):
    """Residue positions of cysteines whose SG lies within the S-S criterion of another sulfur (integer arithmetic)."""
    import propka.bonds as pb
    lim = int(round(pb.DISULFIDE_DISTANCE * 1000)) ** 2
    sulfurs = []
    for r in inres:
        if r["ign"]:
            continue
        for nm, el, xyz in zip(r["names"], r["els"], r["xyz"]):
            if el == "S":
                sulfurs.append((r["pos"], nm, xyz, r))
    out = []
    knife = False
    for pos, nm, xyz, r in sulfurs:
        if r["resn"] != "CYS" or nm != "SG" or r["het"]:
            continue
        for pos2, nm2, xyz2, r2 in sulfurs:
            if (pos2, nm2) == (pos, nm) or r2["model"] != r["model"]:
                continue
            d2 = sum((a - b) ** 2 for a, b in zip(xyz, xyz2))
            if d2 == lim:
                knife = True
            if d2 < lim:
                out.append(pos)
                break
    return sorted(set(out)), knife


def cfg_record():
    t = observe.cfg_tables()
    sc = t["scalars"]

    def mic(k, d):
        return int(round(sc.get(k, d) * 1000000))
    return {
        "ions": {k: int(round(100 * v)) for k, v in t["ions"].items()},
        "charge": {k: int(round(100 * v)) for k, v in t["charge"].items()},
        "model": {k: int(round(1e6 * v)) for k, v in t["model_pkas"].items()},
        "custom": {k: int(round(1e6 * v)) for k, v in t["custom_model_pkas"].items()},
        "scal": {"sidechain_interaction": mic("sidechain_interaction", 0.85),
                 "COO_HIS_exception": mic("COO_HIS_exception", 1.6), "OCO_HIS_exception": mic("OCO_HIS_exception", 1.6),
                 "CYS_HIS_exception": mic("CYS_HIS_exception", 1.6), "CYS_CYS_exception": mic("CYS_CYS_exception", 3.6),
                 "coulomb_cutoff1": int(round(1000 * sc.get("coulomb_cutoff1", 4.0)))},
    }, t


def parse_opts(optargs):
    chains, tlist, tonly = [], [], 0
    it = iter(optargs)
    for a in it:
        if a in ("-c", "--chain"):
            chains.append(next(it))
        elif a.startswith("--chain="):
            chains.append(a.split("=", 1)[1])
        elif a in ("-i", "--titrate_only"):
            tonly = 1
            for e in next(it).split(","):
                ch, rest = e.split(":")
                m = re.match(r"^(-?\d+)(\D?)$", rest)
                tlist.append([ch, int(m.group(1)), m.group(2) or " "])
    return chains, tonly, tlist


def trace_record(run, text, optargs, cfgrec, cfgt, keeppen=0, name=""):
    rec, idx = observe.observe(run, text)
    inres = rec.pop("inres")
    nter = 0
    # cumulative separator counter, ignore flag, coordinates per atom
    counts = {}
    c = 0
    for i, ln in enumerate(idx.lines):
        if ln[:6] in ("TER   ", "MODEL "):
            c += 1
        counts[i] = c
    line2pos = {}
    for r in inres:
        r["nter"] = counts[r["ids"][0]]
        r["ign"] = 1 if r["resn"] in cfgt["ignore_residues"] else 0
        r["xyz"] = [[idx.recs[j].x, idx.recs[j].y, idx.recs[j].z] for j in r["ids"]]
        for j in r["ids"]:
            line2pos[j] = r["pos"]
    bridged, knife = _bridged_positions(inres)
    chains, tonly, tlist = parse_opts(optargs)
    multi = len(rec["confs"]) > 1
    # census is decided for single-conformation inputs without duplicate coordinates (C08 handles the others)
    # ... and for alternate-location inputs of one model in which every residue position holds one residue type: after
    # completion every conformation holds every residue, so each conformation owes the census of the input
    keys_ = [(r["model"], r["chain"], r["num"], r["ic"]) for r in inres]
    altloc_only = multi and len({str(c)[:-1] for c in rec["confs"]}) == 1 and len(set(keys_)) == len(keys_) \
        and len({r["model"] for r in inres}) == 1 and not any(len({idx.recs[j].resn for j in r["ids"]}) > 1 for r in inres)
    census = 0 if ((multi and not altloc_only) or idx.dups or knife) else 1
    for cname, gl in rec["G"].items():
        conf = run.mol.conformations[cname]
        byatom = {}
        for g in conf.groups:
            byatom[idx.gid(g.atom)] = g
        for g in gl:
            g["rpos"] = line2pos.get(g["gid"], -1)
            g["ckey"] = "%s-%s" % (g["resn"], g["aname"])
            real = byatom.get(g["gid"])
            star = -1
            if real is not None:
                s = real.get_determinant_string(False)
                first = s.split("\n")[0] if s else ""
                if len(first) > 16:
                    star = 1 if first[16] == "*" else 0
            g["star"] = star
    # one residue name per position: in the input (per model; records without alt-loc label are shared by every
    # conformation, labelled ones belong to one) and in each conformation of the run
    names_at = {}
    mdl = 1
    for j, ln in enumerate(idx.lines):
        if ln[:6] == "MODEL ":
            try:
                mdl = int(ln[6:].split()[0])
            except (ValueError, IndexError):
                mdl += 1
        r_ = idx.recs[j]
        if r_ is None:
            continue
        names_at.setdefault((mdl, r_.chain, r_.num, r_.icode), {}).setdefault(r_.alt or " ", set()).add(r_.resn.strip())
    onetype = 1
    for key_, byalt in names_at.items():
        blank = byalt.get(" ", set())
        if len(blank) > 1 or any(len(v) > 1 for v in byalt.values()) or (blank and any(v != blank for v in byalt.values())):
            onetype = 0
    resat = {}
    for cname in rec["confs"]:
        seen = []
        for a in run.mol.conformations[cname].atoms:
            if a.element == "H":
                continue        # (hydrogens built by the program carry no insertion code)
            t = [a.chain_id, a.res_num, a.icode or " ", a.res_name.strip()]
            if t not in seen:
                seen.append(t)
        resat[str(cname)] = seen
    rec["onetype"], rec["resat"] = onetype, resat
    slim = [{k: r[k] for k in ("pos", "model", "chain", "num", "ic", "resn", "het", "names", "nter", "ign")} for r in inres]
    rec.update({"name": name, "opts": {"chains": chains, "tonly": tonly, "tlist": tlist, "keeppen": keeppen},
                "inres": slim, "bridged": bridged, "census": census, "cfg": cfgrec,
                "hasfile": 1 if rec["file"] else 0})
    f = rec["file"] or {"summary": [], "det_groups": []}
    rec["file"] = {"summary": f["summary"], "det_groups": f["det_groups"]}
    rec["_others"] = rec.get("others")      # (older harness code reads this name)
    return rec


RUN_INV = {
    "C01": ["C01_Census", "C01_ExactlyOnce", "C01_Bridge", "C01_Ligands", "C01_SummaryNotPenalised",
            "C01_SummaryNothingElse", "C01_SummaryPenalisedToo", "C01_SummaryModel", "C01_OneResiduePerPosition", "C01_Identity"],
    "C02": ["C02_SumIdentity", "C02_RenderedTable", "C02_RenderedSummary"],
    "C15": ["C15_Symmetric", "C15_StarIffPartner", "C15_FileStars"],
    "C16": ["C16_Desolvation", "C16_Buried", "C16_Backbone", "C16_CoulombSign", "C16_CoulombBound",
            "C16_SidechainBound", "C16_AcidBasePair", "C16_CoulombSource"],
}


def run_and_record(ctx, cases, keep_runs=False, file_layout=False):
    """cases: list of (name, text, optargs[, extra dict]). Returns (records, metas, runs)."""
    cfgrec, cfgt = cfg_record()
    recs, metas, runs = [], [], []
    for case in cases:
        name, text, optargs = case[0], case[1], list(case[2])
        extra = case[3] if len(case) > 3 else {}
        r = runner.run(text, ["-q"] + optargs)
        ctx.count()
        meta = {"input": name, "optargs": optargs}
        if r.exc is not None:
            meta["exc"] = repr(r.exc)
            recs.append(None)
        else:
            try:
                recs.append(trace_record(r, text, optargs, cfgrec, cfgt, keeppen=extra.get("keeppen", 0), name=name))
                meta["groups"] = len(recs[-1]["G"]["AVR"])
                if file_layout and r.pka_text:
                    from . import pkafile
                    recs[-1]["_pkafile"] = pkafile.record(r, name)
            except Exception as ex:  # noqa
                import traceback
                meta["exc"] = "observe: " + "".join(traceback.format_exception_only(type(ex), ex)).strip()
                recs.append(None)
        metas.append(meta)
        runs.append(r if keep_runs else None)
    return recs, metas, runs


def validate(ctx, recs, metas, invariants, label="run records"):
    good = [(r, m) for r, m in zip(recs, metas) if r is not None]
    if not good:
        return {}
    wd = tlc.workdir("runs")
    tf = os.path.join(wd, "runs.json")
    json.dump([{k: v for k, v in r.items() if not k.startswith("_")} for r, _ in good], open(tf, "w"))
    res, viol = tlc.trace_check("Trace_Run", invariants, tf, timeout=3000)
    ctx.add_tlc(res, "trace validation of %s (%d runs)" % (label, len(good)))
    ctx.traces += len(good)
    return {inv: [good[i] for i in idxs] for inv, idxs in viol.items()}


def base_cases(ctx):
    """Structures x option settings used by the run-level properties."""
    cases = []
    names = ["1HPX", "3SGB", "1FTJ-Chain-A", "4DFR", "sample-issue-140", "3SGB-subset", "1HPX-warn"]
    for n in names:
        cases.append((n, corpus.test_pdb_text(n), []))
    cases.append(("1HPX -c A", corpus.test_pdb_text("1HPX"), ["-c", "A"]))
    cases.append(("3SGB -c I", corpus.test_pdb_text("3SGB"), ["-c", "I"]))
    cases.append(("3SGB -i", corpus.test_pdb_text("3SGB"), ["-i", "E:17,E:18,E:19,E:57,E:102,E:195,I:7,I:18,I:56"]))
    cases.append(("frag-1HPX-A20+8", corpus.fragment("1HPX", "A", 20, 8), []))
    cases.append(("frag-3SGB-I0+12", corpus.fragment("3SGB", "I", 0, 12), []))
    cases.append(("frag-1FTJ-A100+30", corpus.fragment("1FTJ-Chain-A", "A", 100, 30), []))
    cases.append(("none", corpus.no_group_structure(), []))
    # residue numbers that fill the four columns of their field; a chain holding 26-33 and 1026-1033
    f8 = corpus.chain_lines("1HPX", "A", 25, 8)
    cases.append(("frag-1HPX-A25+8 numbered from 1026", corpus.join(corpus.shift_numbers(f8, 1000) + [corpus.TER]), []))
    cases.append(("frag-1HPX-A25+8 numbered from -174", corpus.join(corpus.shift_numbers(f8, -200) + [corpus.TER]), []))
    # terminal oxygens under the CHARMM / GROMOS names OT1 / OT2 (no atom called O or OXT in the last residue): by the
    # statement's definition no residue carries a terminal oxygen then
    tail = corpus.chain_lines("1HPX", "A", 85, 14) + [corpus.TER] + corpus.chain_lines("1HPX", "B", 0, 10) + [corpus.TER]
    last_a = [corpus.resid(ln) for ln in tail if corpus.is_atom(ln) and ln[21] == "A"][-1]
    ot = []
    for ln in tail:
        if corpus.is_atom(ln) and corpus.resid(ln) == last_a and ln[12:16].strip() in ("O", "OXT"):
            ln = ln[:12] + (" OT1" if ln[12:16].strip() == "O" else " OT2") + ln[16:]
        ot.append(ln)
    cases.append(("frag-1HPX-A-tail+B-head OT1/OT2", corpus.join(ot), []))
    neg8 = corpus.shift_numbers(f8, -200)
    nums8 = sorted({corpus.resid(ln)[1] for ln in neg8 if corpus.is_atom(ln) and ln[17:20] in ("ASP", "GLU", "LYS", "ARG", "HIS", "TYR", "CYS")})
    if nums8:
        cases.append(("frag-1HPX-A25+8 numbered from -174 -i", corpus.join(neg8 + [corpus.TER]),
                      ["-i", ",".join("A:%d" % n_ for n_ in nums8[:3])]))
    far8 = corpus.translate(corpus.shift_numbers(f8, 1000), 40000, 0, 0)
    cases.append(("frag-1HPX-A25+8 and its copy numbered +1000 in one chain", corpus.join(f8 + [corpus.TER] + far8 + [corpus.TER]), []))
    # small multi-conformation inputs (alternate locations, MODEL records, point mutants between conformations): every
    # run-level property sees them, not only C08
    from .props import c08
    multi = dict(c08.constructed(ctx))
    for n in ("alt-rotamers-AB", "mutant-A-ASP-B-ASN", "identical-models-1-2", "model2-missing-atoms", "nterm-residue-altAB",
              "mutant-A-ASP-B-ASN+altABC-elsewhere", "mutant-B-ASP-C-ASN+altABC-elsewhere", "models-ASP-ASN-unmodelled",
              "models-unmodelled-ASN-ASP"):
        if n in multi:
            cases.append((n, multi[n], []))
    # two copies of one ligand in one chain (hetero group labels carry no residue number), a residue that kept its
    # defining atom but lost its interaction atoms, a disulfide fragment - alone and under options
    from .props import c14
    frs = dict(c14.fragments(ctx))
    for n in ("two-ligand-copies", "frag-3SGB-disulfide", "frag-1HPX-A20+7+altlocs"):
        if n in frs:
            cases.append((n, corpus.join(frs[n]), []))
    if "frag-3SGB-disulfide" in frs:
        cases.append(("frag-3SGB-disulfide -d", corpus.join(frs["frag-3SGB-disulfide"]), ["-d"]))
        cases.append(("frag-3SGB-disulfide --protonate-all", corpus.join(frs["frag-3SGB-disulfide"]), ["--protonate-all"]))
    e = corpus.chain_lines("3SGB", "E", 0, 25)
    cases.append(("frag-3SGB-E-ASP-without-oxygens",
                  corpus.join([ln for ln in e if not (ln[17:20] == "ASP" and ln[12:16].strip() in ("OD1", "OD2"))] + [corpus.TER]), []))
    return cases


def kit_cases(ctx, every=1, dists=(3200, 5500, 8500)):
    """Each molecule of the synthetic ligand kit next to an acid, a base and a histidine of a real fragment."""
    from . import ligandkit as K
    base = corpus.chain_lines("1HPX", "A", 40, 30)      # Lys43, Lys45, Asp60, His69 ...
    cx, cy, cz = corpus.centroid(base)
    anchors = []
    for ln in base:
        if corpus.is_atom(ln) and (ln[17:20], ln[12:16].strip()) in (("ASP", "CG"), ("LYS", "NZ"), ("HIS", "NE2")):
            r = corpus.pdbio.parse_line(ln)
            anchors.append((ln[17:20] + ln[22:26].strip(), (r.x, r.y, r.z)))
    out = []
    names = sorted(K.molecules())
    k = 0
    for name in names:
        for an, (x, y, z) in anchors[:3]:
            for d in dists:
                k += 1
                if k % every != ctx.seed % every:
                    continue
                v = (x - cx, y - cy, z - cz)
                n = max(1.0, sum(c * c for c in v) ** 0.5)
                org = tuple(int(a + d * c / n) + 3 for a, c in zip((x, y, z), v))
                out.append((f"kit-{name}@{an}+{d}", corpus.join(base + [corpus.TER] + K.lines(name, org)), []))
    return out
