"""Inputs: the repository's test structures, fragments cut from them, and constructed cases."""
import os

from . import core, pdbio

TEST_PDBS = ["1FTJ-Chain-A", "1HPX", "3SGB", "3SGB-subset", "4DFR", "sample-issue-140", "1HPX-warn",
             "conf-alt-AB", "conf-alt-AB-mutant", "conf-alt-BC", "conf-model-missing-atoms", "conf-model-mutant"]


def test_pdb_text(name):
    return open(os.path.join(core.REPO, "tests", "pdb", name + ".pdb")).read()


_cache = {}


def atom_lines(name):
    """ATOM/HETATM/TER lines of a test structure (first model only)."""
    if name not in _cache:
        out = []
        for ln in test_pdb_text(name).splitlines():
            k = ln[:6].strip()
            if k == "ENDMDL":
                break
            if k in ("ATOM", "HETATM", "TER"):
                out.append(ln)
        _cache[name] = out
    return _cache[name]


def residue_blocks(lines):
    """[(key, [lines])] for consecutive ATOM/HETATM lines with the same (chain, num, icode); TER -> ('TER', [line])."""
    blocks = []
    for ln in lines:
        k = ln[:6].strip()
        if k == "TER":
            blocks.append(("TER", [ln]))
            continue
        key = (ln[21], ln[22:26], ln[26], ln[17:20])
        if blocks and blocks[-1][0] == key:
            blocks[-1][1].append(ln)
        else:
            blocks.append((key, [ln]))
    return blocks


def fragment(name, chain, first, count, protein_only=True, cap=True):
    """Text of `count` consecutive residues of `chain` starting at residue index `first` (0-based in that chain)."""
    bl = [b for b in residue_blocks(atom_lines(name)) if b[0] != "TER" and b[0][0] == chain
          and (not protein_only or b[1][0].startswith("ATOM"))]
    sel = bl[first:first + count]
    lines = [ln for _, ls in sel for ln in ls]
    return "\n".join(lines) + "\nTER   \nEND\n"


def no_group_structure():
    """A structure without any ionizable group: two carbons of an alanine side chain."""
    return "\n".join([
        pdbio.atom_line("ATOM", 1, "CA", " ", "ALA", "A", 1, " ", 1000, 2000, 3000),
        pdbio.atom_line("ATOM", 2, "CB", " ", "ALA", "A", 1, " ", 2530, 2000, 3000),
    ]) + "\nEND\n"
