"""Inputs: the repository's test structures, fragments cut from them, and constructed cases."""
import os

from . import core, pdbio

TEST_PDBS = ["1FTJ-Chain-A", "1HPX", "3SGB", "3SGB-subset", "4DFR", "sample-issue-140", "1HPX-warn",
             "conf-alt-AB", "conf-alt-AB-mutant", "conf-alt-BC", "conf-model-missing-atoms", "conf-model-mutant"]


def test_pdb_text(name):
    return open(os.path.join(core.REPO, "tests", "pdb", name + ".pdb")).read()


_cache = {}


def atom_lines(name):
    """ATOM/HETATM/TER lines of a test structure (first model only)."""
    if name not in _cache:
        out = []
        for ln in test_pdb_text(name).splitlines():
            k = ln[:6].strip()
            if k == "ENDMDL":
                break
            if k in ("ATOM", "HETATM", "TER"):
                out.append(ln)
        _cache[name] = out
    return _cache[name]


def residue_blocks(lines):
    """[(key, [lines])] for consecutive ATOM/HETATM lines with the same (chain, num, icode); TER -> ('TER', [line])."""
    blocks = []
    for ln in lines:
        k = ln[:6].strip()
        if k == "TER":
            blocks.append(("TER", [ln]))
            continue
        key = (ln[21], ln[22:26], ln[26], ln[17:20])
        if blocks and blocks[-1][0] == key:
            blocks[-1][1].append(ln)
        else:
            blocks.append((key, [ln]))
    return blocks


def fragment(name, chain, first, count, protein_only=True, cap=True):
    """Text of `count` consecutive residues of `chain` starting at residue index `first` (0-based in that chain)."""
    bl = [b for b in residue_blocks(atom_lines(name)) if b[0] != "TER" and b[0][0] == chain
          and (not protein_only or b[1][0].startswith("ATOM"))]
    sel = bl[first:first + count]
    lines = [ln for _, ls in sel for ln in ls]
    return "\n".join(lines) + "\nTER   \nEND\n"


def no_group_structure():
    """A structure without any ionizable group: two carbons of an alanine side chain."""
    return "\n".join([
        pdbio.atom_line("ATOM", 1, "CA", " ", "ALA", "A", 1, " ", 1000, 2000, 3000),
        pdbio.atom_line("ATOM", 2, "CB", " ", "ALA", "A", 1, " ", 2530, 2000, 3000),
    ]) + "\nEND\n"


# ---------------------------------------------------------------------------------------------
# line-level transformations (fixed columns; never through propka)
# ---------------------------------------------------------------------------------------------
def is_atom(ln):
    return ln[:6] in ("ATOM  ", "HETATM")


def body(text):
    return [ln for ln in text.splitlines() if ln.strip() and not ln.startswith("END")]


def join(lines):
    return "\n".join(lines) + "\nEND\n"


def set_resid(ln, chain=None, num=None, icode=None):
    ln = ln.ljust(80)
    if chain is not None:
        ln = ln[:21] + chain + ln[22:]
    if num is not None:
        ln = ln[:22] + ("%4d" % num) + ln[26:]
    if icode is not None:
        ln = ln[:26] + icode + ln[27:]
    return ln


def resid(ln):
    return (ln[21], int(ln[22:26]), ln[26])


def shift_numbers(lines, delta, chain=None):
    return [set_resid(ln, num=resid(ln)[1] + delta) if is_atom(ln) and (chain is None or ln[21] == chain) else ln
            for ln in lines]


def rename_chain(lines, old, new):
    return [set_resid(ln, chain=new) if is_atom(ln) and ln[21] == old else ln for ln in lines]


def relabel_residues(lines, mapping):
    """mapping: {(chain, num, icode): (chain, num, icode)}"""
    out = []
    for ln in lines:
        if is_atom(ln) and resid(ln) in mapping:
            c, n, i = mapping[resid(ln)]
            ln = set_resid(ln, chain=c, num=n, icode=i)
        out.append(ln)
    return out


def renumber_sequential(lines, start=1):
    """Residues in file order get numbers of their own (insertion codes removed), per chain."""
    out = []
    last = {}
    cur = {}
    for ln in lines:
        if is_atom(ln):
            ch = ln[21]
            rid = resid(ln)
            if cur.get(ch) != rid:
                cur[ch] = rid
                last[ch] = last.get(ch, start - 1) + 1
            ln = set_resid(ln, num=last[ch], icode=" ")
        out.append(ln)
    return out


def to_hetatm(lines, pred):
    return [("HETATM" + ln[6:]) if is_atom(ln) and pred(ln) else ln for ln in lines]


def drop(lines, pred):
    return [ln for ln in lines if not (pred(ln))]


def translate(lines, dx, dy, dz):
    """Shift by milli-Angstrom integers."""
    out = []
    for ln in lines:
        if is_atom(ln):
            r = pdbio.parse_line(ln)
            ln = pdbio.set_xyz(ln, r.x + dx, r.y + dy, r.z + dz)
        out.append(ln)
    return out


ION_ATOM_NAMES = {"FE2": "FE", "IOD": "I", "CU1": "CU", "CO3": "CO", "3CO": "CO", "MN3": "MN"}


def ion_line(resn, xyz, chain="X", num=900, serial=9000):
    """A HETATM record of a monatomic ion under its wwPDB atom name (FE2 -> FE, IOD -> I; otherwise the residue name)."""
    name = ION_ATOM_NAMES.get(resn, resn if len(resn) <= 2 else resn[:2])
    el = name if name[:1].isalpha() else resn[-1:]
    el2 = el[0] + el[1:].lower() if len(el) == 2 else el
    return pdbio.atom_line("HETATM", serial, name, " ", resn, chain, num, " ", xyz[0], xyz[1], xyz[2], elem=el2)


def centroid(lines, pred=lambda ln: True):
    pts = [pdbio.parse_line(ln) for ln in lines if is_atom(ln) and pred(ln)]
    n = max(1, len(pts))
    return (sum(p.x for p in pts) // n, sum(p.y for p in pts) // n, sum(p.z for p in pts) // n)


def atom_xyz(lines, chain, num, name, icode=" "):
    for ln in lines:
        if is_atom(ln) and resid(ln) == (chain, num, icode) and ln[12:16].strip() == name:
            r = pdbio.parse_line(ln)
            return (r.x, r.y, r.z)
    return None


def chain_lines(name, chain, first=0, count=None, protein_only=True):
    bl = [b for b in residue_blocks(atom_lines(name)) if b[0] != "TER" and b[0][0] == chain
          and (not protein_only or b[1][0].startswith("ATOM"))]
    sel = bl[first:(first + count) if count else None]
    return [ln for _, ls in sel for ln in ls]


TER = "TER   "


def adjacent_same_type(types=("ASP", "GLU", "HIS", "CYS", "TYR", "LYS", "ARG"), pad=2):
    """Windows of real structure around two ADJACENT residues of the same titratable type:
    [(source, lines, id_first, id_second)]."""
    out = []
    for src in ("1FTJ-Chain-A", "3SGB", "1HPX", "4DFR"):
        blocks = [b for b in residue_blocks(atom_lines(src)) if b[0] != "TER" and b[1][0].startswith("ATOM")]
        for k in range(pad, len(blocks) - pad - 1):
            a, b = blocks[k][0], blocks[k + 1][0]
            if a[3] == b[3] and a[3] in types and a[0] == b[0] and a[2] == " " and b[2] == " ":
                win = blocks[k - pad:k + 2 + pad]
                if all(w[0][0] == a[0] for w in win):
                    lines = [ln for _, ls in win for ln in ls]
                    out.append((src, lines, (a[0], int(a[1]), a[2]), (b[0], int(b[1]), b[2])))
    return out


def make_twins(lines, first, second, code="A"):
    """Give residue `second` the number of `first` plus an insertion code (labels only)."""
    return relabel_residues(lines, {second: (first[0], first[1], code)})


def free_spots(lines, near, count=2, rmin=2800, rmax=7500, clearance=2700, apart=3200, step=600):
    """Lattice points around `near` (milli-A) that keep `clearance` to every atom of `lines` and `apart` to each other."""
    import numpy as np
    pts = np.array([[r.x, r.y, r.z] for r in (pdbio.parse_line(ln) for ln in lines if is_atom(ln))], dtype=np.int64)
    out = []
    rng = range(-rmax, rmax + 1, step)
    cands = sorted(((dx * dx + dy * dy + dz * dz, (near[0] + dx + 7, near[1] + dy - 3, near[2] + dz + 11))
                    for dx in rng for dy in rng for dz in rng if rmin * rmin <= dx * dx + dy * dy + dz * dz <= rmax * rmax))
    for _, p in cands:
        d2 = ((pts - np.array(p, dtype=np.int64)) ** 2).sum(axis=1)
        if d2.min() < clearance * clearance:
            continue
        if any(sum((a - b) ** 2 for a, b in zip(p, q)) < apart * apart for q in out):
            continue
        out.append(p)
        if len(out) >= count:
            break
    return out


def buried_anchors(lines, names=(("ASP", "CG"), ("GLU", "CD"), ("TYR", "OH"), ("LYS", "NZ"), ("HIS", "NE2")), top=3):
    """Defining atoms of titratable side chains ranked by the number of atoms within 15 A (most buried first)."""
    import numpy as np
    recs = [pdbio.parse_line(ln) for ln in lines if is_atom(ln)]
    pts = np.array([[r.x, r.y, r.z] for r in recs], dtype=np.int64)
    cand = []
    for r in recs:
        if (r.resn, r.name.strip()) in names and r.kind == "ATOM":
            n = int((((pts - np.array([r.x, r.y, r.z])) ** 2).sum(axis=1) < 15000 ** 2).sum())
            cand.append((n, (r.x, r.y, r.z), f"{r.resn}{r.num}{r.chain}"))
    cand.sort(reverse=True)
    return cand[:top]


def place_copy(all_lines, part_lines, tmin=4500, tmax=9000, clearance=2700, step=700):
    """A translation (milli-A) of `part_lines` whose image keeps `clearance` to every atom of `all_lines`; None if none."""
    import numpy as np
    pts = np.array([[r.x, r.y, r.z] for r in (pdbio.parse_line(ln) for ln in all_lines if is_atom(ln))], dtype=np.int64)
    part = np.array([[r.x, r.y, r.z] for r in (pdbio.parse_line(ln) for ln in part_lines if is_atom(ln))], dtype=np.int64)
    rng = range(-tmax, tmax + 1, step)
    cands = sorted((dx * dx + dy * dy + dz * dz, (dx + 3, dy - 5, dz + 1)) for dx in rng for dy in rng for dz in rng
                   if tmin * tmin <= dx * dx + dy * dy + dz * dz <= tmax * tmax)
    for _, t in cands:
        img = part + np.array(t, dtype=np.int64)
        d2 = ((img[:, None, :] - pts[None, :, :]) ** 2).sum(axis=2)
        if d2.min() >= clearance * clearance:
            return t
    return None


def add_altloc(lines, rid, delta=(300, -200, 250), backbone=("N", "CA", "C", "O", "OXT", "CB"), labels=("A", "B")):
    """Give the side chain (beyond CB) of residue rid = (chain, num, icode) alternate locations: the original atoms become
    alt-loc labels[0], displaced copies follow them as labels[1], labels[2] ... (as in crystallographic files)."""
    out = []
    for ln in lines:
        if is_atom(ln) and resid(ln) == tuple(rid) and ln[12:16].strip() not in backbone:
            p = pdbio.parse_line(ln)
            out.append(ln[:16] + labels[0] + ln[17:])
            for k, lab in enumerate(labels[1:], 1):
                out.append(pdbio.set_xyz(ln[:16] + lab + ln[17:], p.x + k * delta[0], p.y + k * delta[1], p.z + k * delta[2]))
        else:
            out.append(ln)
    return out


def align_to_axis(lines, p, q, axis):
    """Rigidly rotate the structure about p so that the vector p -> q points along coordinate axis `axis` (0, 1, 2).
    Coordinates are re-rounded to the PDB grid (0.001 A)."""
    import math
    v = [q[i] - p[i] for i in range(3)]
    n = math.sqrt(sum(x * x for x in v))
    u = [x / n for x in v]
    t = [1.0 if i == axis else 0.0 for i in range(3)]
    c = sum(a * b for a, b in zip(u, t))
    k = [u[1] * t[2] - u[2] * t[1], u[2] * t[0] - u[0] * t[2], u[0] * t[1] - u[1] * t[0]]
    s = math.sqrt(sum(x * x for x in k))
    if s < 1e-12:
        return list(lines)
    k = [x / s for x in k]
    out = []
    for ln in lines:
        if not is_atom(ln):
            out.append(ln)
            continue
        r = pdbio.parse_line(ln)
        w = [r.x - p[0], r.y - p[1], r.z - p[2]]
        kw = sum(a * b for a, b in zip(k, w))
        kxw = [k[1] * w[2] - k[2] * w[1], k[2] * w[0] - k[0] * w[2], k[0] * w[1] - k[1] * w[0]]
        rot = [w[i] * c + kxw[i] * s + k[i] * kw * (1 - c) for i in range(3)]
        out.append(pdbio.set_xyz(ln, int(round(p[0] + rot[0])), int(round(p[1] + rot[1])), int(round(p[2] + rot[2]))))
    return out


def disulfide_pair():
    """The two cysteines of the 3SGB bridge E42-E58 as a two-chain structure, with the SG positions."""
    a = [ln for ln in chain_lines("3SGB", "E", 13, 1)]
    b = rename_chain([ln for ln in chain_lines("3SGB", "E", 33, 1)], "E", "F")
    lines = a + [TER] + b + [TER]
    sg = [pdbio.parse_line(ln) for ln in lines if is_atom(ln) and ln[12:16].strip() == "SG"]
    return lines, (sg[0].x, sg[0].y, sg[0].z), (sg[1].x, sg[1].y, sg[1].z)


def disulfide_slides(axis, step=10, span=2600, start=0):
    """The bridge turned parallel to a coordinate axis and pushed along it in `step` (milli-A) increments: every
    placement of the two sulfurs relative to any internal grid along that axis."""
    lines, p, q = disulfide_pair()
    al = align_to_axis(lines, p, q, axis)
    out = []
    for off in range(start, start + span, step):
        d = [0, 0, 0]
        d[axis] = off
        out.append((off, translate(al, *d)))
    return out
