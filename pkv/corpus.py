"""Inputs: the repository's test structures, fragments cut from them, and constructed cases."""
import os

from . import core, pdbio

TEST_PDBS = ["1FTJ-Chain-A", "1HPX", "3SGB", "3SGB-subset", "4DFR", "sample-issue-140", "1HPX-warn",
             "conf-alt-AB", "conf-alt-AB-mutant", "conf-alt-BC", "conf-model-missing-atoms", "conf-model-mutant"]


def test_pdb_text(name):
    return open(os.path.join(core.REPO, "tests", "pdb", name + ".pdb")).read()


_cache = {}


def atom_lines(name):
    """ATOM/HETATM/TER lines of a test structure (first model only)."""
    if name not in _cache:
        out = []
        for ln in test_pdb_text(name).splitlines():
            k = ln[:6].strip()
            if k == "ENDMDL":
                break
            if k in ("ATOM", "HETATM", "TER"):
                out.append(ln)
        _cache[name] = out
    return _cache[name]


def residue_blocks(lines):
    """[(key, [lines])] for consecutive ATOM/HETATM lines with the same (chain, num, icode); TER -> ('TER', [line])."""
    blocks = []
    for ln in lines:
        k = ln[:6].strip()
        if k == "TER":
            blocks.append(("TER", [ln]))
            continue
        key = (ln[21], ln[22:26], ln[26], ln[17:20])
        if blocks and blocks[-1][0] == key:
            blocks[-1][1].append(ln)
        else:
            blocks.append((key, [ln]))
    return blocks


def fragment(name, chain, first, count, protein_only=True, cap=True):
    """Text of `count` consecutive residues of `chain` starting at residue index `first` (0-based in that chain)."""
    bl = [b for b in residue_blocks(atom_lines(name)) if b[0] != "TER" and b[0][0] == chain
          and (not protein_only or b[1][0].startswith("ATOM"))]
    sel = bl[first:first + count]
    lines = [ln for _, ls in sel for ln in ls]
    return "\n".join(lines) + "\nTER   \nEND\n"


def no_group_structure():
    """A structure without any ionizable group: two carbons of an alanine side chain."""
    return "\n".join([
        pdbio.atom_line("ATOM", 1, "CA", " ", "ALA", "A", 1, " ", 1000, 2000, 3000),
        pdbio.atom_line("ATOM", 2, "CB", " ", "ALA", "A", 1, " ", 2530, 2000, 3000),
    ]) + "\nEND\n"


# ---------------------------------------------------------------------------------------------
# line-level transformations (fixed columns; never through propka)
# ---------------------------------------------------------------------------------------------
def is_atom(ln):
    return ln[:6] in ("ATOM  ", "HETATM")


def body(text):
    return [ln for ln in text.splitlines() if ln.strip() and not ln.startswith("END")]


def join(lines):
    return "\n".join(lines) + "\nEND\n"


def set_resid(ln, chain=None, num=None, icode=None):
    ln = ln.ljust(80)
    if chain is not None:
        ln = ln[:21] + chain + ln[22:]
    if num is not None:
        ln = ln[:22] + ("%4d" % num) + ln[26:]
    if icode is not None:
        ln = ln[:26] + icode + ln[27:]
    return ln


def resid(ln):
    return (ln[21], int(ln[22:26]), ln[26])


def shift_numbers(lines, delta, chain=None):
    return [set_resid(ln, num=resid(ln)[1] + delta) if is_atom(ln) and (chain is None or ln[21] == chain) else ln
            for ln in lines]


def rename_chain(lines, old, new):
    return [set_resid(ln, chain=new) if is_atom(ln) and ln[21] == old else ln for ln in lines]


def relabel_residues(lines, mapping):
    """mapping: {(chain, num, icode): (chain, num, icode)}"""
    out = []
    for ln in lines:
        if is_atom(ln) and resid(ln) in mapping:
            c, n, i = mapping[resid(ln)]
            ln = set_resid(ln, chain=c, num=n, icode=i)
        out.append(ln)
    return out


def renumber_sequential(lines, start=1):
    """Residues in file order get numbers of their own (insertion codes removed), per chain."""
    out = []
    last = {}
    cur = {}
    for ln in lines:
        if is_atom(ln):
            ch = ln[21]
            rid = resid(ln)
            if cur.get(ch) != rid:
                cur[ch] = rid
                last[ch] = last.get(ch, start - 1) + 1
            ln = set_resid(ln, num=last[ch], icode=" ")
        out.append(ln)
    return out


def to_hetatm(lines, pred):
    return [("HETATM" + ln[6:]) if is_atom(ln) and pred(ln) else ln for ln in lines]


def drop(lines, pred):
    return [ln for ln in lines if not (pred(ln))]


def translate(lines, dx, dy, dz):
    """Shift by milli-Angstrom integers."""
    out = []
    for ln in lines:
        if is_atom(ln):
            r = pdbio.parse_line(ln)
            ln = pdbio.set_xyz(ln, r.x + dx, r.y + dy, r.z + dz)
        out.append(ln)
    return out


def ion_line(resn, xyz, chain="X", num=900, serial=9000):
    el = resn if len(resn) <= 2 else resn[:2]
    name = resn if len(resn) <= 2 else resn[:2]
    el2 = el[0] + el[1:].lower() if len(el) == 2 else el
    return pdbio.atom_line("HETATM", serial, name, " ", resn, chain, num, " ", xyz[0], xyz[1], xyz[2], elem=el2)


def centroid(lines, pred=lambda ln: True):
    pts = [pdbio.parse_line(ln) for ln in lines if is_atom(ln) and pred(ln)]
    n = max(1, len(pts))
    return (sum(p.x for p in pts) // n, sum(p.y for p in pts) // n, sum(p.z for p in pts) // n)


def atom_xyz(lines, chain, num, name, icode=" "):
    for ln in lines:
        if is_atom(ln) and resid(ln) == (chain, num, icode) and ln[12:16].strip() == name:
            r = pdbio.parse_line(ln)
            return (r.x, r.y, r.z)
    return None


def chain_lines(name, chain, first=0, count=None, protein_only=True):
    bl = [b for b in residue_blocks(atom_lines(name)) if b[0] != "TER" and b[0][0] == chain
          and (not protein_only or b[1][0].startswith("ATOM"))]
    sel = bl[first:(first + count) if count else None]
    return [ln for _, ls in sel for ln in ls]


TER = "TER   "


def adjacent_same_type(types=("ASP", "GLU", "HIS", "CYS", "TYR", "LYS", "ARG"), pad=2):
    """Windows of real structure around two ADJACENT residues of the same titratable type:
    [(source, lines, id_first, id_second)]."""
    out = []
    for src in ("1FTJ-Chain-A", "3SGB", "1HPX", "4DFR"):
        blocks = [b for b in residue_blocks(atom_lines(src)) if b[0] != "TER" and b[1][0].startswith("ATOM")]
        for k in range(pad, len(blocks) - pad - 1):
            a, b = blocks[k][0], blocks[k + 1][0]
            if a[3] == b[3] and a[3] in types and a[0] == b[0] and a[2] == " " and b[2] == " ":
                win = blocks[k - pad:k + 2 + pad]
                if all(w[0][0] == a[0] for w in win):
                    lines = [ln for _, ls in win for ln in ls]
                    out.append((src, lines, (a[0], int(a[1]), a[2]), (b[0], int(b[1]), b[2])))
    return out


def make_twins(lines, first, second, code="A"):
    """Give residue `second` the number of `first` plus an insertion code (labels only)."""
    return relabel_residues(lines, {second: (first[0], first[1], code)})
