"""Thin driver around TLC: run a spec+cfg, parse statistics, collect PrintT JSON lines."""
import json
import os
import re
import shutil
import subprocess
import tempfile
import time

VERIF = os.path.dirname(os.path.dirname(os.path.abspath(__file__)))
TLA_DIR = os.path.join(VERIF, "tla")
WORK = os.path.join(VERIF, ".work")
JAR = "/opt/veriftools/tla/tla2tools.jar:/opt/veriftools/tla/CommunityModules-deps.jar"


class TLCError(Exception):
    """Machinery failure (not a property violation)."""


class TLCResult:
    def __init__(self):
        self.generated = 0
        self.distinct = 0
        self.depth = 0
        self.exit = None
        self.stdout = ""
        self.printed = []      # decoded JSON values printed by PrintT(ToJson(..))
        self.raw_printed = []  # other PrintT lines
        self.invariant_violated = None
        self.postcondition_failed = False
        self.error = None
        self.coverage = {}
        self.wall = 0.0
        self.cmd = ""

    @property
    def ok(self):
        return (self.exit == 0 and self.invariant_violated is None
                and not self.postcondition_failed and self.error is None)


def workdir(tag="w"):
    os.makedirs(WORK, exist_ok=True)
    return tempfile.mkdtemp(prefix=f"{tag}-{os.getpid()}-", dir=WORK)


_STATS = re.compile(r"^(\d+) states generated, (\d+) distinct states found, (\d+) states left on queue")
_DEPTH = re.compile(r"The depth of the complete state graph search is (\d+)")
_INV = re.compile(r"Error: Invariant (\S+) is violated")
_ACTPROP = re.compile(r"Error: Action property (\S+) is violated")
_CONSTINV = re.compile(r"Error: The invariant of (\S+) is equal to FALSE")
_COV = re.compile(r"^<(\w+) line (\d+), col (\d+) to line (\d+), col (\d+) of module (\w+)>: (\d+):(\d+)")


def run(module, cfg=None, workers=None, timeout=600, simulate=None, depth=None,
        extra=None, env=None, coverage=False, xss="256m", xmx=None, dfid=None,
        deadlock=None, cwd=None, seed=None, keep=False, collect_json=True):
    """Run TLC on /verif/tla/<module>.tla with <cfg> (default <module>.cfg).

    Returns a TLCResult. Raises TLCError for machinery failures (parse errors, time-out,
    JVM crash). A violated invariant / failed postcondition is reported in the result.
    """
    cwd = cwd or TLA_DIR
    cfg = cfg or (module + ".cfg")
    meta = workdir("tlc")
    java_opts = ["-XX:+UseParallelGC", f"-Xss{xss}"]
    if xmx:
        java_opts.append(f"-Xmx{xmx}")
    cmd = ["java"] + java_opts + ["-cp", JAR, "tlc2.TLC",
           "-metadir", meta, "-noGenerateSpecTE", "-config", cfg]
    if workers is None:
        workers = os.cpu_count() or 4
    cmd += ["-workers", str(workers)]
    if simulate:
        cmd += ["-simulate", simulate]
    if depth:
        cmd += ["-depth", str(depth)]
    if seed is not None:
        cmd += ["-seed", str(seed)]
    if coverage:
        cmd += ["-coverage", "1"]
    if deadlock is False:
        cmd += ["-deadlock"]
    if extra:
        cmd += list(extra)
    cmd += [module]
    e = dict(os.environ)
    e.pop("JAVA_TOOL_OPTIONS", None)
    if env:
        e.update({k: str(v) for k, v in env.items()})
    res = TLCResult()
    res.cmd = " ".join(cmd)
    t0 = time.time()
    try:
        p = subprocess.run(cmd, cwd=cwd, env=e, stdout=subprocess.PIPE, stderr=subprocess.STDOUT,
                           timeout=timeout, text=True, errors="replace")
    except subprocess.TimeoutExpired as ex:
        shutil.rmtree(meta, ignore_errors=True)
        raise TLCError(f"TLC timed out after {timeout}s: {' '.join(cmd)}") from ex
    finally:
        if not keep:
            shutil.rmtree(meta, ignore_errors=True)
    res.wall = time.time() - t0
    res.exit = p.returncode
    res.stdout = p.stdout
    for line in p.stdout.splitlines():
        m = _STATS.match(line)
        if m:
            res.generated, res.distinct = int(m.group(1)), int(m.group(2))
            continue
        m = _DEPTH.search(line)
        if m:
            res.depth = int(m.group(1))
            continue
        m = _INV.search(line) or _ACTPROP.search(line) or _CONSTINV.search(line)
        if m:
            res.invariant_violated = m.group(1)
            if _CONSTINV.search(line):
                res.const_invariant = True      # a constant-level invariant that is FALSE: TLC exits 151 without a trace
            continue
        if "Postcondition" in line and ("violated" in line or "false" in line.lower()):
            res.postcondition_failed = True
            continue
        m = _COV.match(line)
        if m:
            res.coverage[f"{m.group(6)}!{m.group(1)}@{m.group(2)}"] = [int(m.group(7)), int(m.group(8))]
            continue
        if collect_json and line.startswith('"{') or (collect_json and line.startswith('"[')):
            try:
                res.printed.append(json.loads(json.loads(line)))
                continue
            except Exception:
                res.raw_printed.append(line)
                continue
        if line.startswith("PKV "):
            res.raw_printed.append(line[4:])
    if getattr(res, "const_invariant", False) and res.exit == 151:
        res.exit = 12
    if res.exit not in (0, 12, 13) or "Parsing or semantic analysis failed" in p.stdout \
            or ("Error:" in p.stdout and res.invariant_violated is None and not res.postcondition_failed
                and res.exit != 0):
        # exit 12 = safety violation, 13 = liveness violation; everything else non-zero is machinery
        tail = "\n".join(p.stdout.splitlines()[-40:])
        res.error = f"TLC exit {res.exit}\n{tail}"
        if res.exit not in (0, 12, 13):
            raise TLCError(res.error)
    return res


def sany(module, cwd=None):
    cwd = cwd or TLA_DIR
    cmd = ["java", "-cp", JAR, "tla2sany.SANY", module]
    p = subprocess.run(cmd, cwd=cwd, stdout=subprocess.PIPE, stderr=subprocess.STDOUT, text=True)
    ok = p.returncode == 0 and "Semantic errors" not in p.stdout and "Parse Error" not in p.stdout \
        and "Fatal errors" not in p.stdout and "Could not find module" not in p.stdout
    return ok, p.stdout


if __name__ == "__main__":
    import sys
    a = sys.argv[1:]
    w = None
    if "-w1" in a:
        a.remove("-w1")
        w = 1
    res = run(a[0], a[1] if len(a) > 1 else None, workers=w, timeout=3600, collect_json=False)
    lines = [ln for ln in res.stdout.splitlines()
             if not ln.startswith(("Computed ", "Semantic ", "Linting ", "Parsing ", "Progress("))]
    print("\n".join(lines[-(int(os.environ.get("TAIL", "40"))):]))


def trace_check(module, invariants, trace_file, constants=None, timeout=1800, workers=None, label=None):
    """Validate a trace file (array of records; spec has the single variable i = record index).

    Runs TLC with -continue so that every violated (invariant, record) pair is reported.
    Returns (TLCResult, {invariant: [record indices (0-based)]}).
    """
    wd = workdir("tr")
    cfgp = os.path.join(wd, "trace.cfg")
    with open(cfgp, "w") as fh:
        fh.write("SPECIFICATION Spec\n")
        if constants:
            fh.write("CONSTANTS\n")
            for k, v in constants.items():
                fh.write(f"  {k} = {v}\n")
        for inv in invariants:
            fh.write(f"INVARIANT {inv}\n")
        fh.write("CHECK_DEADLOCK FALSE\n")
    try:
        res = run(module, cfgp, timeout=timeout, workers=workers, extra=["-continue"],
                  env={"TRACE_FILE": trace_file}, collect_json=False)
    finally:
        shutil.rmtree(wd, ignore_errors=True)
    viol = {}
    for m in re.finditer(r"Error: Invariant (\S+) is violated[^\n]*\n(?:[^\n]*\n){0,3}?[/\\ ]*i = (\d+)", res.stdout):
        viol.setdefault(m.group(1), set()).add(int(m.group(2)) - 1)
    viol = {k: sorted(v) for k, v in viol.items()}
    if res.error and not viol:
        raise TLCError("trace validation failed (machinery):\n" + res.stdout[-3000:])
    if "Error:" in res.stdout and not viol:
        raise TLCError("trace validation failed (evaluation error):\n" + res.stdout[-3000:])
    # evaluation errors inside an invariant also stop TLC: surface them
    if re.search(r"Error: Evaluating invariant|Error: The error occurred|Attempted to", res.stdout):
        raise TLCError("trace validation hit an evaluation error:\n" + res.stdout[-4000:])
    return res, viol
