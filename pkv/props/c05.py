"""C05 - parts of a structure beyond interaction range do not influence each other.
Spec: tla/Iterative.tla (iterative solver: fixed point after convergence, cluster independence under the
      global convergence test and the cap of 10), tla/Relations.tla + Trace_Rel.tla (Part).

M  MC_Iterative: all configurations of two clusters (and of one cluster of three groups): a converged
   cluster is a fixed point; a cluster's determinants are the same alone and together with another cluster.
G  (i) every emitted configuration is replayed through the real iterative.add_determinants on real Group
   objects, the cluster alone and both clusters together, against TLC's determinants;
   (ii) unions of real structures: separation classes from just beyond the cut-off to the limits of the
   coordinate field x directions x both file orders x {copy of itself, different structure}.
T  Trace_Rel!Part: every group of a part run alone (in the pose it has in the union) equals the same group
   inside the union; unions spanning more than 1000 A must be processed without error.
"""
import json
import random

from .. import corpus, relations, runner, tlc, pdbio
from . import c04

C = corpus
SEPARATIONS = [25001, 30000, 100000, 999000, 1001000, 5000000, 9000000]      # milli-Angstrom gaps between bounding boxes
DIRECTIONS = [(1, 0, 0), (-1, 0, 0), (0, 1, 0), (0, -1, 0), (0, 0, 1), (0, 0, -1), (1, 1, 1)]


def stub_groups(n):
    from propka.atom import Atom
    from propka.group import Group
    gs = []
    for i in range(n):
        a = Atom(pdbio.atom_line("ATOM", i + 1, "CG", " ", "ASP", "A", 10 + i, " ", 1000 * i, 0, 0))
        g = Group(a)
        g.type = "COO"
        gs.append(g)
    return gs


def real_solver(cfg, pair_idx, version):
    """Run the real iterative scheme on the pairs pair_idx of configuration cfg; returns {k: (d1, d2)} in tenths."""
    from propka.iterative import add_determinants
    n = len(cfg["q"])
    gs = stub_groups(n)
    for i, g in enumerate(gs):
        g.charge = float(cfg["q"][i])
        g.model_pka = cfg["p0"][i] / 8.0     # eighths: exact in binary, so ties are exact as in the integer model
        g.residue_type = "ASP" if cfg["q"][i] < 0 else "LYS"
    inter = []
    for k in pair_idx:
        i, j = cfg["pairs"][k]
        inter.append([[gs[i - 1], gs[j - 1]], [cfg["hb"][k] / 8.0, cfg["co"][k] / 8.0], [0.0, 0.0]])
    add_determinants(inter, version)
    out = {}
    for k in pair_idx:
        i, j = cfg["pairs"][k]
        gi, gj = gs[i - 1], gs[j - 1]
        d1 = sum(d.value for t in gi.determinants for d in gi.determinants[t] if getattr(d.group, "group", d.group) is gj)
        d2 = sum(d.value for t in gj.determinants for d in gj.determinants[t] if getattr(d.group, "group", d.group) is gi)
        out[k] = (round(d1 * 8, 6), round(d2 * 8, 6))
    return out


def bbox(lines):
    pts = [pdbio.parse_line(ln) for ln in lines if C.is_atom(ln)]
    return [(min(getattr(p, a) for p in pts), max(getattr(p, a) for p in pts)) for a in ("x", "y", "z")]


def place(a_lines, b_lines, gap, direction):
    """Translate both parts so that their bounding boxes are `gap` apart along `direction` and everything fits
    the PDB coordinate field. Returns (a', b') or None."""
    ba, bb = bbox(a_lines), bbox(b_lines)
    ta, tb = [0, 0, 0], [0, 0, 0]
    for ax in range(3):
        d = direction[ax]
        if d == 0:
            continue
        # a to the low side (d > 0) or to the high side (d < 0) of the field, b beyond it
        if d > 0:
            ta[ax] = -900000 - ba[ax][0] if gap > 500000 else 0
            tb[ax] = (ba[ax][1] + ta[ax]) + gap - bb[ax][0]
        else:
            ta[ax] = 9000000 - ba[ax][1] if gap > 500000 else 0
            tb[ax] = (ba[ax][0] + ta[ax]) - gap - bb[ax][1]
    # (the field limits are checked on the translated bounding boxes before any line is rewritten)
    for box, t in ((ba, ta), (bb, tb)):
        for ax in range(3):
            if box[ax][0] + t[ax] < -999999 or box[ax][1] + t[ax] > 9999999:
                return None
    return C.translate(a_lines, *ta), C.translate(b_lines, *tb)


def fresh_chains(lines, used):
    pool = [c for c in "PQRSTUVWXYZ" if c not in used]
    out = lines
    for ch in sorted({ln[21] for ln in lines if C.is_atom(ln)}):
        new = pool.pop(0)
        out = C.rename_chain(out, ch, new)
    return out


def parts(ctx):
    p = {"1HPX-A": C.chain_lines("1HPX", "A", protein_only=True) , "frag-3SGB-I": C.chain_lines("3SGB", "I", 0, 25),
         "frag-1FTJ": C.chain_lines("1FTJ-Chain-A", "A", 100, 40)}
    if ctx.thorough():
        p["3SGB"] = [ln for ln in C.body(C.test_pdb_text("3SGB")) if C.is_atom(ln) or ln.startswith("TER")]
        p["1HPX"] = [ln for ln in C.body(C.test_pdb_text("1HPX")) if C.is_atom(ln) or ln.startswith("TER")]
    return p


def run(ctx):
    from propka.parameters import Parameters
    from propka.input import read_parameter_file
    from propka.version import VersionA
    ctx.rule = ("cases = iterative configurations (TLC-emitted) and unions (part A, part B, separation, direction, order); "
                "non-trivial = configuration with a non-zero interaction in both clusters; union with >= 1 group per part")
    for cfg, label in (("MC_Iterative_22.cfg", "two clusters: fixed point, independence, termination"),
                       ("MC_Iterative_3.cfg", "one cluster of three: fixed point, termination")):
        if cfg == "MC_Iterative_3.cfg" and not ctx.thorough():
            continue
        r = tlc.run("MC_Iterative", cfg, timeout=3000)
        ctx.add_tlc(r, label)
        if not r.ok:
            raise tlc.TLCError("spec-level failure in MC_Iterative:\n" + r.stdout[-3000:])
    # ---- G (i) ---------------------------------------------------------------------------
    r = tlc.run("MC_Iterative", "Gen_Iterative_22.cfg", workers=1, timeout=3000)
    ctx.add_tlc(r, "iterative configuration generator")
    with runner.quiet():
        version = VersionA(read_parameter_file("propka.cfg", Parameters()))
    bad = {}
    stride = 1 if ctx.thorough() else 5
    for n, c in enumerate(r.printed):
        if n % stride != ctx.seed % stride:
            continue
        allk = list(range(len(c["pairs"])))
        c1 = [k - 1 for k in c["c1"]]
        ctx.count()
        if all(c["hb"][k] + c["co"][k] > 0 for k in allk):
            ctx.nontriv(json.dumps([c["q"], c["p0"], c["hb"], c["co"]]))
        try:
            joint = real_solver(c, allk, version)
            alone = real_solver(c, c1, version)
        except Exception as ex:  # noqa
            bad.setdefault("solver:exception", (c, repr(ex)))
            continue
        for k in allk:
            if tuple(joint[k]) != tuple(c["dets"][k]):
                bad.setdefault("solver:joint-differs-from-spec", (c, f"pair {k}: real {joint[k]} spec {c['dets'][k]}"))
        for k in c1:
            if tuple(alone[k]) != tuple(c["alone"][k]):
                bad.setdefault("solver:alone-differs-from-spec", (c, f"pair {k}: real {alone[k]} spec {c['alone'][k]}"))
            if alone[k] != joint[k]:
                bad.setdefault("solver:cluster-depends-on-other-cluster", (c, f"pair {k}: alone {alone[k]} joint {joint[k]}"))
    ctx.traces += 1
    for k, (c, msg) in sorted(bad.items()):
        if k.endswith("differs-from-spec") and "solver:cluster-depends-on-other-cluster" not in bad:
            ctx.note(f"MODEL-DRIFT: {k}: {msg} (mechanism model differs; independence itself holds)")
            continue
        ctx.violation(k, f"configuration {c}: {msg}", {"config": c})
    # ---- G (ii) / T ------------------------------------------------------------------------
    rng = random.Random(ctx.seed)
    ps = parts(ctx)
    names = sorted(ps)
    combos = []
    for gi, gap in enumerate(SEPARATIONS):
        for di, d in enumerate(DIRECTIONS):
            if not ctx.thorough() and (gi * 7 + di + ctx.seed) % 5:
                continue
            a = names[(gi + di) % len(names)]
            b = names[(gi + 2 * di + 1) % len(names)]          # sometimes the same: a structure and its own copy
            # every third union: the second part's numbering starts with the number the first part ends with
            combos.append((a, b, gap, d, (gi + di) % 2, (gi + 2 * di) % 3 == 0))
    # a structure with a bound ligand and its own copy in the SAME chain, residue numbers + 1000 (several identical
    # ligands assigned to one chain): ligand groups of the two copies carry the same label
    ps["1FTJ+ligand"] = [ln for ln in C.body(C.test_pdb_text("1FTJ-Chain-A")) if C.is_atom(ln) and ln[17:20] != "HOH"]
    same = [("1FTJ+ligand", "1FTJ+ligand", gap, d, order, "same-chain")
            for gap, d, order in ((30000, (1, 0, 0), 0), (1500000, (0, 1, 0), 1), (26000, (0, 0, -1), 1), (400000, (1, 1, 0), 0))]
    combos += same if ctx.thorough() else [same[0]] + ([same[1]] if ctx.seed % 2 else [])     # (30 A: inside 100 A, beyond every cut-off)
    # a part with a non-covalently coupled system that is coupled only just (1FTJ: Glu 193 and the bound glutamate) next to
    # another protein: which groups count as coupled (marks, stars) is a result of the part like any other
    combos.append(("1FTJ+ligand", "1HPX-A", 600000, (1, 0, 0), ctx.seed % 2, False))
    if ctx.thorough():
        combos.append(("1FTJ+ligand", "1HPX-A", 40000, (0, 0, -1), 1 - ctx.seed % 2, False))
    # the largest separations the coordinate field admits: corner to corner (about 18700 A) and end to end of one axis
    far = [("frag-3SGB-I", "frag-1FTJ", 9000000, (1, 1, 1), 0, False), ("frag-1FTJ", "frag-3SGB-I", 10800000, (0, 1, 0), 1, False),
           ("frag-3SGB-I", "frag-3SGB-I", 10800000, (-1, 0, 0), 0, False)]
    combos += far if ctx.thorough() else [far[ctx.seed % 2]]
    # a part holding a group without interaction atoms (ASP with CG but no carboxylate oxygens), in both file orders
    e = C.chain_lines("3SGB", "E", 0, 25)
    ps["frag-3SGB-E-ASP-without-oxygens"] = [ln for ln in e if not (ln[17:20] == "ASP" and ln[12:16].strip() in ("OD1", "OD2"))]
    trunc = [("frag-3SGB-E-ASP-without-oxygens", "frag-1FTJ", 30000, (1, 0, 0), 0, False),
             ("frag-3SGB-E-ASP-without-oxygens", "frag-3SGB-I", 300000, (0, -1, 0), 1, False)]
    # the same with the intact part sitting around the coordinate origin (where a group centre that was never set would be)
    cx_, cy_, cz_ = C.centroid(ps["frag-1FTJ"])
    ps["frag-1FTJ@origin"] = C.translate(ps["frag-1FTJ"], -int(cx_), -int(cy_), -int(cz_))
    trunc.append(("frag-1FTJ@origin", "frag-3SGB-E-ASP-without-oxygens", 300000, (1, 0, 0), 1, False))
    trunc.append(("frag-1FTJ@origin", "frag-3SGB-E-ASP-without-oxygens", 60000, (0, 0, 1), 0, False))
    combos += trunc if ctx.thorough() else [trunc[0], trunc[2 + ctx.seed % 2]]
    # two chains that each start with an aspartate (two covalently coupled systems), scored with the optional settings of
    # that coupling (names ending in [tag]: parameter-file variant of c02.PARAMS)
    ps["frag-3SGB-I [ccc]"] = C.chain_lines("3SGB", "I", 0, 14)
    ps["frag-3SGB-I [ccc+shared+keep]"] = C.chain_lines("3SGB", "I", 0, 14)
    cc = [("frag-3SGB-I [ccc]", "frag-3SGB-I [ccc]", 300000, (1, 0, 0), 0, False),
          ("frag-3SGB-I [ccc+shared+keep]", "frag-3SGB-I [ccc+shared+keep]", 27000, (0, 0, 1), 1, False)]
    combos += cc if ctx.thorough() else [cc[ctx.seed % 2]]
    # a far part with alternate locations: the union has two conformations, the intact part is the same in both and in the
    # reported average (PartOfMulti)
    from . import c08
    ps["alt-rotamers-AB"] = C.body(dict(c08.constructed(ctx))["alt-rotamers-AB"])
    ma = [("1HPX-A", "alt-rotamers-AB", 600000, (1, 0, 0), 0, False), ("1HPX-A", "alt-rotamers-AB", 45000, (0, -1, 0), 1, False)]
    combos += ma if ctx.thorough() else [ma[ctx.seed % 2]]
    # ... and a part with insertion-coded residues of different types on one number (3SGB E 48, 48A-D) next to it: the second
    # conformation of the union is completed with every one of them
    ps["frag-3SGB-E-ins48"] = C.chain_lines("3SGB", "E", 19, 16)
    combos.append(("frag-3SGB-E-ins48", "alt-rotamers-AB", 300000, (0, 1, 0), ctx.seed % 2, False))
    # a part written without chain identifier next to a part in chain A with the same residue numbers
    ps["frag-1HPX-B0+30"] = C.chain_lines("1HPX", "B", 0, 30)
    combos.append(("1HPX-A", "frag-1HPX-B0+30", 300000, (1, 0, 0), ctx.seed % 2, "blank-chain"))
    # earlier work in the same process - a run under a parameter file with much larger cut-offs - leaves nothing behind
    from . import c02
    prime = c02.param_file({"desolv_cutoff": 100.0, "buried_cutoff": 80.0, "coulomb_cutoff2": 40.0}, "wide-cutoffs")
    pr = runner.run(C.join(ps["frag-3SGB-I"] + [C.TER]), ["-q", "-p", prime], write=False)
    ctx.count()
    ctx.extra["priming_run_with_wide_cutoffs"] = "ok" if pr.exc is None else repr(pr.exc)
    rels = []
    skipped = 0
    for a, b, gap, d, order, meet in combos:
        al = ps[a]
        if meet == "same-chain":
            bl = C.shift_numbers(al, 1000)
            meet = False
        elif meet == "blank-chain":
            bl = C.rename_chain(ps[b], sorted({ln[21] for ln in ps[b] if C.is_atom(ln)})[0], " ")
            meet = False
        else:
            bl = fresh_chains(ps[b], {ln[21] for ln in al if C.is_atom(ln)})
        if meet:
            first, second = (al, bl) if order == 0 else (bl, al)
            n_last = [C.resid(ln)[1] for ln in first if C.is_atom(ln)][-1]
            n_first = [C.resid(ln)[1] for ln in second if C.is_atom(ln)][0]
            nums = [C.resid(ln)[1] for ln in second if C.is_atom(ln)]
            delta = n_last - n_first
            if -999 <= min(nums) + delta and max(nums) + delta <= 9999:
                if order == 0:
                    bl = C.shift_numbers(bl, delta)
                else:
                    al = C.shift_numbers(al, delta)
        pl = place(al, bl, gap, d)
        if pl is None:
            skipped += 1
            continue
        a2, b2 = pl
        first, second = (a2, b2) if order == 0 else (b2, a2)
        strip_ter = lambda ls: [ln for ln in ls if not ln.startswith("TER")]  # noqa
        union = C.join(strip_ter(first) + [C.TER] + strip_ter(second) + [C.TER])
        ta, tb = C.join(strip_ter(a2) + [C.TER]), C.join(strip_ter(b2) + [C.TER])
        from . import c04
        ropts = c04.opts_for(a) if a.endswith("]") else c04.opts_for(b)
        ru = runner.run(union, ropts, write=False)
        ctx.count()
        meta = {"a": a, "b": b, "gap_mA": gap, "direction": d, "order": order, "numbers_meet": meet, "pdb": union}
        if ru.exc is not None:
            ctx.violation(f"union:exception:{type(ru.exc).__name__}:{'beyond-1000A' if gap > 900000 else 'near'}",
                          f"union of {a} and {b} at {gap / 1000} A along {d} raises {ru.exc!r}", meta)
            continue
        for tag, ptext in (("a", ta), ("b", tb)):
            rp = runner.run(ptext, ropts, write=False)
            ctx.count()
            if rp.exc is not None:
                continue
            ctx.nontriv((a, b, gap, d, order, tag))
            multi = len(ru.mol.conformation_names) != len(rp.mol.conformation_names)
            rels.append(relations.relate("PartOfMulti" if multi else "Part", rp, ptext, ru, union, scope_all_a=True, with_bonds=not multi,
                                         meta=dict(meta, part=tag, part_pdb=ptext)))
    ctx.extra["placements_skipped_field_limit"] = skipped
    # the same clause at the level of one interaction (tla/Energy.tla): at and beyond the outer cut-off the value is zero
    from .. import energyfn
    for key_, msg_, payload_ in energyfn.run(ctx, ("zero",), ctx.thorough()):
        ctx.violation(key_, msg_, payload_)
    viol = relations.validate(ctx, rels, ["SameConfs", "Part", "PartOfMulti", "SameBonds"], "part alone vs part inside union")
    seen = set()
    for inv, lst in sorted(viol.items()):
        for rel in lst:
            m = rel["meta"]
            key = f"union:{inv}:{m['a']}+{m['b']}:{'beyond-1000A' if m['gap_mA'] > 900000 else 'near'}"
            if key in seen:
                continue
            seen.add(key)
            ctx.violation(key, f"part {m['part']} of {m['a']}+{m['b']} at {m['gap_mA'] / 1000} A along {m['direction']}: "
                               f"{relations.diff_summary(rel)}", {"pdb": m["pdb"], "part_pdb": m["part_pdb"]})
    if rels:
        m = rels[0]["meta"]
        ctx.sample({k: m[k] for k in ("a", "b", "gap_mA", "direction", "order", "numbers_meet")})
    ctx.extra["relation_pairs"] = len(rels)


def replay(ctx, path):
    case = json.load(open(path))
    print(case["what"])
    p = case["payload"]
    if "pdb" in p:
        r = runner.run(p["pdb"], ["-q"], write=False)
        print("union run:", "exception " + repr(r.exc) if r.exc else "ok")
