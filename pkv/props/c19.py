"""C19 - hybrid-36 decoding.  Spec: tla/Hybrid36.tla (+ MC_Hybrid36, Gen_Hybrid36Mal).

M  TLC walks the odometer (mechanism) and checks Hy36Value/Encode/Judge (declarative) agree,
   strict monotonicity as an action property.
G  TLC-emitted (field, n) pairs and (string, verdict) pairs are replayed through the real
   propka.hybrid36.decode; a Python odometer that is first checked for exact equality against
   TLC's emitted walk then drives decode over large/complete width-4/5 ranges.
T  serial columns of real structures rewritten with valid hybrid-36 fields (relation SameAll).
"""
import multiprocessing as mp
import os
import random

from .. import tlc

GLYPHS = ("0123456789" "ABCDEFGHIJKLMNOPQRSTUVWXYZ" "abcdefghijklmnopqrstuvwxyz" " -+_.*")


def to_str(f):
    return "".join(GLYPHS[g] for g in f)


def cls(ch):
    if ch.isdigit():
        return "d"
    if ch.isupper():
        return "U"
    if ch.islower():
        return "L"
    return ch


def pattern(s):
    return "".join(cls(c) for c in s)


# ---- Python odometer (mirror of Hybrid36!Succ), validated against TLC's walk -------------
D = "0123456789"
UP = D + "ABCDEFGHIJKLMNOPQRSTUVWXYZ"
LO = D + "abcdefghijklmnopqrstuvwxyz"


def py_encode(n, w):
    if n < 10 ** w:
        return str(n)
    n -= 10 ** w
    if n < 26 * 36 ** (w - 1):
        n += 10 * 36 ** (w - 1)
        alpha = UP
    else:
        n -= 26 * 36 ** (w - 1)
        n += 10 * 36 ** (w - 1)
        alpha = LO
    out = []
    for _ in range(w):
        out.append(alpha[n % 36])
        n //= 36
    return "".join(reversed(out))


def py_range(w):
    lo = 0 if w == 1 else -(10 ** (w - 1) - 1)
    hi = 10 ** w + 52 * 36 ** (w - 1) - 1
    return lo, hi


def _sweep(args):
    """Drive the real decode over [a, b) of width w; return list of failures (max 5) and count."""
    w, a, b = args
    from propka.hybrid36 import decode
    bad = []
    prev = None
    for n in range(a, b):
        s = py_encode(n, w)
        try:
            v = decode(s.rjust(w))
            v2 = decode(s)
        except Exception as ex:  # noqa
            v = v2 = repr(ex)
        if v != n or v2 != n or (prev is not None and not (isinstance(v, int) and v > prev)):
            if len(bad) < 5:
                bad.append((w, n, s, str(v)))
        prev = v if isinstance(v, int) else prev
    return bad, b - a


def run(ctx):
    from propka.hybrid36 import decode
    ctx.rule = ("cases = (field, integer) pairs along the hybrid-36 encoding order and glyph strings over a "
                "class-representative alphabet; non-trivial = distinct field with a letter, a sign or an illegal glyph")
    ctx.assumptions += ["TLC integers are 32-bit: width-5 maximum 87,440,031 fits",
                        "'-' in front of a letter-initial field and leading zeros are not judged (DESIGN sec.5)"]
    # ---- M: model checking of the specification -------------------------------------
    r = tlc.run("MC_Hybrid36", "MC_Hybrid36_w123.cfg", timeout=600)
    ctx.add_tlc(r, "odometer widths 1-3, all values")
    if not r.ok:
        raise tlc.TLCError("spec-level failure in MC_Hybrid36 w123:\n" + r.stdout[-2000:])
    r = tlc.run("MC_Hybrid36", "MC_Hybrid36_bound45.cfg", timeout=600)
    ctx.add_tlc(r, "odometer widths 4-5, boundary segments")
    if not r.ok:
        raise tlc.TLCError("spec-level failure in MC_Hybrid36 bound45:\n" + r.stdout[-2000:])
    if ctx.thorough():
        r = tlc.run("MC_Hybrid36", "MC_Hybrid36_w4.cfg", timeout=1800)
        ctx.add_tlc(r, "odometer width 4, all 2.4M values")
        if not r.ok:
            raise tlc.TLCError("spec-level failure in MC_Hybrid36 w4:\n" + r.stdout[-2000:])

    # ---- G1: TLC's walk replayed through the real decode ---------------------------------
    fails = {}
    total = 0
    walk = {}
    for cfg, label in (("Gen_Hybrid36_w123.cfg", "emit widths 1-3"), ("Gen_Hybrid36_bound45.cfg", "emit boundaries 4-5")):
        r = tlc.run("MC_Hybrid36", cfg, workers=1, timeout=900)
        ctx.add_tlc(r, label)
        if not r.ok:
            raise tlc.TLCError("generator failed: " + r.stdout[-2000:])
        for c in r.printed:
            s_pad, n, w = to_str(c["f"]), c["n"], c["w"]
            walk[(w, n)] = s_pad.strip()
            for variant in (s_pad, s_pad.strip(), s_pad.strip().ljust(w), " " + s_pad + " "):
                total += 1
                try:
                    v = decode(variant)
                except Exception as ex:  # noqa
                    v = f"{type(ex).__name__}"
                if v != n:
                    fails.setdefault(f"roundtrip:w{w}:{pattern(s_pad.strip())}", (variant, n, v))
            if not s_pad.strip().lstrip("-").isdigit():
                ctx.nontriv(("enc", s_pad))
                if n % 977 == 0:
                    ctx.sample({"kind": "encoding", "field": s_pad, "expect": n})
        ctx.traces += 1
    ctx.count(total)
    for k, (variant, n, v) in fails.items():
        ctx.violation(k, f"decode({variant!r}) = {v}, standard encoding of {n}", {"field": variant, "expected": n, "got": v})

    # ---- G2: malformed strings with TLC's verdict ------------------------------------------
    r = tlc.run("Gen_Hybrid36Mal", "Gen_Hybrid36Mal5.cfg" if ctx.thorough() else "Gen_Hybrid36Mal.cfg",
                workers=1, timeout=1800)
    ctx.add_tlc(r, "malformed-string generator")
    if not r.ok:
        raise tlc.TLCError("generator failed: " + r.stdout[-2000:])
    nj = {"value": 0, "reject": 0, "unjudged": 0}
    mal_fail = {}
    for c in r.printed:
        s = to_str(c["f"])
        nj[c["k"]] += 1
        ctx.count()
        try:
            v = decode(s)
            outcome = ("value", v)
        except ValueError:
            outcome = ("reject", 0)
        except Exception as ex:  # any other failure is not what the statement allows
            outcome = ("error:" + type(ex).__name__, 0)
        if c["k"] == "unjudged":
            continue
        ctx.nontriv(("mal", s))
        if c["k"] == "reject" and len(s) == 3 and "_" in s:
            ctx.sample({"kind": "malformed", "field": s, "expect": "ValueError", "got": outcome[0]})
        if c["k"] == "reject" and outcome[0] != "reject":
            mal_fail.setdefault("malformed-accepted:" + pattern(s.strip()), (s, outcome))
        elif c["k"] == "value" and outcome != ("value", c["v"]):
            mal_fail.setdefault("standard-misdecoded:" + pattern(s.strip()), (s, outcome, c["v"]))
    ctx.traces += 1
    ctx.extra["judged"] = nj
    for k, t in sorted(mal_fail.items()):
        ctx.violation(k, f"decode({t[0]!r}) -> {t[1]}" + (f", expected {t[2]}" if len(t) > 2 else ", expected ValueError"),
                      {"field": t[0], "got": t[1]})

    # ---- G3: Python odometer == TLC walk, then sweeps through the real decode ---------------
    drift = [(w, n, s, py_encode(n, w)) for (w, n), s in walk.items() if py_encode(n, w) != s]
    if drift:
        raise tlc.TLCError(f"python odometer disagrees with TLC's walk: {drift[:3]}")
    ctx.extra["odometer_crosschecked_points"] = len(walk)
    rng = random.Random(ctx.seed)
    jobs = []
    if ctx.thorough():
        for w in (4, 5):
            lo, hi = py_range(w)
            step = 500000
            jobs += [(w, a, min(a + step, hi + 1)) for a in range(lo, hi + 1, step)]
        ctx.exhaustive = True
    else:
        lo, hi = py_range(4)
        jobs += [(4, a, min(a + 200000, hi + 1)) for a in range(lo, hi + 1, 200000)]
        lo, hi = py_range(5)
        for _ in range(32):
            a = rng.randrange(lo, hi - 100000)
            jobs.append((5, a, a + 100000))
        jobs += [(5, lo, lo + 120000), (5, hi - 100000, hi + 1),
                 (5, 10 ** 5 + 26 * 36 ** 4 - 50000, 10 ** 5 + 26 * 36 ** 4 + 50000)]
    with mp.Pool(min(16, os.cpu_count() or 4)) as pool:
        swept = 0
        for bad, cnt in pool.imap_unordered(_sweep, jobs):
            swept += cnt
            for (w, n, s, v) in bad:
                ctx.violation(f"sweep:w{w}:{pattern(s)}", f"decode({s!r}) = {v}, expected {n} / not increasing",
                              {"field": s, "expected": n, "got": v})
    ctx.count(swept)
    ctx.extra["swept_values_through_decode"] = swept
    ctx.traces += len(jobs)

    # ---- T: serial numbers never influence predictions ---------------------------------------
    from .. import corpus, relations, runner
    rels = []
    dfr_a = "\n".join(ln for ln in corpus.test_pdb_text("4DFR").splitlines() if not (corpus.is_atom(ln) and ln[21] != "A")) + "\n"
    inputs = [("3SGB-subset", corpus.test_pdb_text("3SGB-subset")), ("frag-1HPX-A20+12", corpus.fragment("1HPX", "A", 20, 12)),
              ("4DFR-A (two conformations, ligand)", dfr_a),
              ("conf-model-missing-atoms", corpus.test_pdb_text("conf-model-missing-atoms")),
              ("conf-alt-AB", corpus.test_pdb_text("conf-alt-AB"))]
    if ctx.thorough():
        inputs += [("4DFR", corpus.test_pdb_text("4DFR")), ("1HPX", corpus.test_pdb_text("1HPX"))]
    for name, text in inputs:
        base = runner.run(text, ["-q"])
        ctx.count()
        if base.exc is not None:
            continue
        lo, hi = py_range(5)
        natoms = sum(1 for ln in text.splitlines() if corpus.is_atom(ln))
        for mode in ("upper", "lower", "mixed", "negative", "descending", "hetero-descending", "restart-per-model", "all-equal",
                     "restart-per-model-hy36", "all-zero", "zero-based-per-model"):
            out = []
            k = 0
            for ln in text.splitlines():
                if ln.startswith("MODEL") and (mode.startswith("restart") or mode == "zero-based-per-model"):
                    k = 0                        # the NMR habit: serials start again in every MODEL
                if corpus.is_atom(ln):
                    k += 1
                    if mode == "restart-per-model":
                        n = k
                    elif mode == "restart-per-model-hy36":
                        n = 100000 + k
                    elif mode == "all-equal":
                        n = 7
                    elif mode == "all-zero":
                        n = 0
                    elif mode == "zero-based-per-model":
                        n = k - 1
                    elif mode == "descending":
                        n = 90000 - k
                    elif mode == "hetero-descending":
                        n = (90000 - k) if ln.startswith("HETATM") else k
                    elif mode == "upper":
                        n = 100000 + rng.randrange(0, 26 * 36 ** 4)
                    elif mode == "lower":
                        n = 100000 + 26 * 36 ** 4 + rng.randrange(0, 26 * 36 ** 4)
                    elif mode == "negative":
                        n = -rng.randrange(1, 9999)
                    else:
                        n = rng.randrange(lo, hi)
                    ln = ln[:6] + py_encode(n, 5).rjust(5) + ln[11:]
                out.append(ln)
            etext = "\n".join(out) + "\n"
            rb = runner.run(etext, ["-q"])
            ctx.count()
            if rb.exc is not None:
                ctx.violation(f"serial:{mode}:exception", f"{name} with {mode} hybrid-36 serials raises {rb.exc!r}", {"field": "", "pdb": etext})
                continue
            ctx.nontriv((name, mode))
            rels.append(relations.relate("SameAll", base, text, rb, etext, textcmp=True, meta={"input": name, "mode": mode, "pdb": etext}))
    # a malformed serial field in a structure file: the run is rejected with ValueError, the atom is not silently dropped
    from .. import corpus as _C
    frag_ = _C.fragment("1HPX", "A", 20, 8).splitlines()
    k_ = next(i for i, ln in enumerate(frag_) if _C.is_atom(ln) and ln[12:16].strip() == "CG")
    for bad_ in ("aB123", "*****", "1 234", "12-34", "    -", "A_000", "12.5 "):
        t_ = "\n".join(frag_[:k_] + [frag_[k_][:6] + bad_ + frag_[k_][11:]] + frag_[k_ + 1:]) + "\n"
        rm_ = runner.run(t_, ["-q"], write=False)
        ctx.count()
        if not isinstance(rm_.exc, ValueError):
            ctx.violation(f"serial:malformed-in-file:{'accepted' if rm_.exc is None else type(rm_.exc).__name__}",
                          f"a structure whose serial field reads {bad_!r}: "
                          f"{'the run completes' if rm_.exc is None else repr(rm_.exc)} (ValueError expected)", {"field": bad_, "pdb": t_})
            break
    rv = relations.validate(ctx, rels, ["SameConfs", "SameAll", "TextSame"], "serial columns rewritten with hybrid-36 fields")
    for inv, lst in sorted(rv.items()):
        for rel in lst:
            m = rel["meta"]
            ctx.violation(f"serial:{m['mode']}:{inv}", f"{m['input']}: rewriting serials ({m['mode']}) changes results: "
                          f"{relations.diff_summary(rel)}", {"field": "", "pdb": m["pdb"]})


def replay(ctx, path):
    import json
    from propka.hybrid36 import decode
    case = json.load(open(path))
    f = case["payload"]["field"]
    try:
        print("decode(%r) = %r" % (f, decode(f)))
    except Exception as ex:  # noqa
        print("decode(%r) raises %r" % (f, ex))
    print("expected:", case["payload"].get("expected", "ValueError"))
