"""C07 - content the model does not use has no effect.
Spec: tla/PdbReader.tla (C07_Ignorable; the Atom projection has no serial/occupancy/B/element/charge field),
      tla/Relations.tla + Trace_Rel.tla (SameAll, TextSame).

M  MC_PdbReader: for all record sequences, yielded atoms are invariant under removal of OTHER records and
   ignorable residues (with and without keep-protons).
G  emitted sequences through the real reader (shared with C01).
T  full runs: edited vs original (ignorable records, waters and other configured residues, hydrogens
   inside their own residue, rewritten serial/occupancy/B-factor/element/charge columns), default vs
   --protonate-all, and the program's own hydrogens fed back with --keep-protons; compared by TLC.
"""
import json
import random

from .. import corpus, relations, runner, observe, pdbio
from . import c01_reader

C = corpus
HY36 = "0123456789ABCDEFGHIJKLMNOPQRSTUVWXYZ"


def rewrite_columns(lines, rng):
    out = []
    for k, ln in enumerate(lines):
        if C.is_atom(ln):
            ln = ln.ljust(80)
            mode = rng.randrange(4)
            if mode == 0:
                serial = "%5d" % rng.randrange(-999, 99999)
            elif mode == 1:
                serial = rng.choice("ABCXYZ") + "".join(rng.choice(HY36) for _ in range(4))
            elif mode == 2:
                serial = rng.choice("abcxyz") + "".join(rng.choice(HY36.lower()) for _ in range(4))
            else:
                serial = "%5d" % (k + 1)
            occ = "%6.2f" % rng.choice([0.0, 0.5, 1.0, 0.33])
            bf = "%6.2f" % rng.uniform(0, 99)
            elem = rng.choice(["  ", " X", "ZZ", ln[76:78]])
            chg = rng.choice(["  ", "1+", "2-"])
            ln = ln[:6] + serial + ln[11:54] + occ + bf + ln[66:76] + elem + chg
            # records that end with the coordinates, or somewhere inside the columns after them (files written by tools that
            # leave occupancy, B-factor, element and charge out)
            cut = rng.randrange(8)
            if cut == 0:
                ln = ln[:54]
            elif cut == 1:
                ln = ln[:rng.choice([55, 60, 61, 66, 72, 76, 77, 78, 79])].rstrip() or ln[:54]
        out.append(ln)
    return out


def insert_ignorable(lines, rng, ignore_names):
    out = []
    n = 0
    cx, cy, cz = C.centroid(lines)
    for ln in lines:
        r = rng.random()
        if r < 0.10:
            out.append(rng.choice(["REMARK 465 ignorable", "ANISOU    1  N   ALA A   1     2406   1892   1614    198    519   -328",
                                   "CONECT  413  412  414", "HETNAM     KNI ligand", "SIGATM", "CRYST1   50.000   50.000   50.000", "ENDMDL", "END",
                                   "LINK", "SSBOND   1 CYS A    1    CYS A    2"]))
        elif r < 0.16:
            n += 1
            nm = rng.choice(ignore_names)
            out.append(pdbio.atom_line("HETATM", 7000 + n, "O", " ", nm, rng.choice("AW "), 600 + n, " ",
                                       cx + rng.randrange(-9000, 9000), cy + rng.randrange(-9000, 9000),
                                       cz + rng.randrange(-9000, 9000), elem="O"))
        out.append(ln)
    # records before the first atom and at the end
    return ["HEADER    TEST", pdbio.atom_line("HETATM", 6999, "O", " ", "HOH", "W", 599, " ", cx + 500, cy, cz, elem="O")] + out + \
           ["MASTER        0", "CONECT    1    2"]


H_NAMES = ("H", "HA", "HB2", "HB3", "HG", "HG2", "HG3", "HG11", "HG12", "HG13", "HG21", "HG22", "HG23", "HD1", "HD11", "HD21",
           "HD22", "HE", "HE1", "HE21", "HE22", "HH", "HH11", "HH12", "HH21", "HH2", "HZ1", "HZ2", "HZ3", "HN", "H1", "H2", "H3",
           "HO", "HXT", "1HB", "2HG1", "3HD2", "H101", "H5'", "HO5'", "HN11", "HC1", "HS", "HM1")


def insert_hydrogens(lines, rng, alts=(" ",), het=True):
    """Hydrogens inside their own residue, after one of its heavy atoms, under the names found in real files (three- and
    four-character names, leading digits, primes) - also inside hetero residues (alts: alternate-location labels to use)."""
    out = []
    n = 0
    for ln in lines:
        out.append(ln)
        if C.is_atom(ln) and (ln[:4] == "ATOM" or het) and ln[17:20] != "HOH" and rng.random() < 0.15:
            r = pdbio.parse_line(ln)
            n += 1
            out.append(pdbio.atom_line(ln[:6].strip(), 8000 + n, H_NAMES[(n * 7 + rng.randrange(3)) % len(H_NAMES)], alts[n % len(alts)],
                                       r.resn, r.chain, r.num, r.icode, r.x + 700, r.y + 500, r.z - 300, elem="H"))
    return out


def with_own_hydrogens(text):
    """Run with --protonate-all and write its hydrogens into the file (after their parent's line)."""
    ra = runner.run(text, ["-q", "--protonate-all"], write=False)
    if ra.exc is not None:
        return None
    idx = observe.InputIndex(text)
    extra = {}
    n = 0
    for a in ra.mol.conformations[ra.mol.conformation_names[0]].atoms:
        if a.element == "H" and idx.gid(a) < 0:
            heavy = [b for b in a.bonded_atoms if b.element != "H"]
            if len(heavy) != 1 or idx.gid(heavy[0]) < 0:
                continue
            p = idx.recs[idx.gid(heavy[0])]
            n += 1
            x, y, z = observe.key_of(a)
            extra.setdefault(idx.gid(heavy[0]), []).append(
                pdbio.atom_line(p.kind, 9000 + n, a.name[:4], " ", p.resn, p.chain, p.num, p.icode, x, y, z, elem="H"))
    out = []
    for i, ln in enumerate(idx.lines):
        out.append(ln)
        out.extend(extra.get(i, []))
    return "\n".join(out) + "\n"


def structures(ctx):
    from . import c08
    multi = dict(c08.constructed(ctx))
    out = [("1HPX", C.test_pdb_text("1HPX")), ("frag-3SGB-E0+25", C.fragment("3SGB", "E", 0, 25)),
           ("alt-rotamers-AB", multi["alt-rotamers-AB"]), ("model2-missing-atoms", multi["model2-missing-atoms"]),
           ("3SGB-subset", C.test_pdb_text("3SGB-subset")), ("sample-issue-140", C.test_pdb_text("sample-issue-140"))]
    # three alternate locations: one side chain has A and B copies only, another one A, B and C - conformation C must be
    # completed from another conformation, whichever the occupancy / B-factor columns favour
    fr = C.chain_lines("1FTJ-Chain-A", "A", 8, 12)
    ids = []
    for ln in fr:
        if C.resid(ln) not in ids:
            ids.append(C.resid(ln))
    tit = [r for r in ids if any(C.resid(ln) == r and ln[17:20] in ("GLU", "ASP", "LYS", "ARG", "TYR", "HIS") for ln in fr)]
    if len(tit) >= 2:
        t3 = C.add_altloc(C.add_altloc(fr, tit[0], delta=(700, -500, 400)), tit[1], delta=(300, 300, -200), labels=("A", "B", "C"))
        out.append(("three-altlocs-AB-ABC", C.join(t3 + [C.TER])))
    if ctx.thorough():
        out += [(n, C.test_pdb_text(n)) for n in ("3SGB", "1FTJ-Chain-A", "4DFR", "conf-alt-AB", "conf-model-mutant")]
    return out


def run(ctx):
    ctx.rule = ("cases = reader sequences (TLC-emitted) and pairs (original run, edited run) per structure x edit kind; "
                "non-trivial = edit that changes at least one line of the file")
    ign = c01_reader.ignore_list()
    c01_reader.model_check(ctx, [("MC_PdbReader_rich.cfg" if ctx.thorough() else "MC_PdbReader_rich3.cfg", "ignorable records, default"),
                                 ("MC_PdbReader_richH.cfg" if ctx.thorough() else "MC_PdbReader_richH3.cfg", "ignorable records, keep-protons")])
    gens = [("Gen_PdbReader2.cfg", "emit rich <= 2", None), ("Gen_PdbReader_H2.cfg", "emit rich <= 2, keep-protons", None)]
    if ctx.thorough():
        gens = [("Gen_PdbReader.cfg", "emit rich <= 3", None), ("Gen_PdbReader_H.cfg", "emit rich <= 3, keep-protons", None)]
    bad = c01_reader.replay(ctx, gens)
    for k, (seq, chains, exp, got, text) in sorted(bad.items()):
        ctx.violation(k, f"reader on\n{text}chains={chains}: expected {exp}, got {got}", {"pdb": text, "chains": chains})
    rng = random.Random(ctx.seed)
    rels = []
    kept_sets = []
    for name, text in structures(ctx):
        base = runner.run(text, ["-q"])
        ctx.count()
        if base.exc is not None:
            ctx.violation(f"run:exception:{name}", repr(base.exc), {"pdb": text})
            continue
        lines = C.body(text)
        edits = [("columns", C.join(rewrite_columns(lines, rng)), []),
                 ("ignorable", C.join(insert_ignorable(lines, rng, ign)), []),
                 ("hydrogens", C.join(insert_hydrogens(lines, rng)), []),
                 ("hydrogens-own-altloc-labels", C.join(insert_hydrogens(lines, rng, alts=("C", "A", "3", " "))), []),
                 ("all", C.join(insert_hydrogens(insert_ignorable(rewrite_columns(lines, rng), rng, ign), rng)), [])]
        for kind, etext, opts in edits:
            rb = runner.run(etext, ["-q"] + opts)
            ctx.count()
            if rb.exc is not None:
                ctx.violation(f"edit:{kind}:exception:{name}", f"edited input raises {rb.exc!r}", {"pdb": etext, "optargs": opts})
                continue
            ctx.nontriv((name, kind))
            rels.append(relations.relate("SameAll", base, text, rb, etext, textcmp=True, with_bonds=True,
                                         meta={"input": name, "edit": kind, "pdb": etext, "orig": text}))
        # default vs --protonate-all
        rp = runner.run(text, ["-q", "--protonate-all"])
        ctx.count()
        if rp.exc is not None:
            ctx.violation(f"protonate-all:exception:{name}", repr(rp.exc), {"pdb": text, "optargs": ["--protonate-all"]})
        else:
            ctx.nontriv((name, "protonate-all"))
            rels.append(relations.relate("SameAll", base, text, rp, text, textcmp=True,
                                         meta={"input": name, "edit": "--protonate-all", "pdb": text, "orig": text}))
        # own hydrogens with --keep-protons (amino-acid structures only)
        if not any(ln.startswith("HETATM") for ln in lines) and len(base.mol.conformation_names) == 1:
            htext = with_own_hydrogens(text)
            if htext:
                rk = runner.run(htext, ["-q", "-k"])
                ctx.count()
                if rk.exc is not None:
                    ctx.violation(f"keep-protons:exception:{name}", repr(rk.exc), {"pdb": htext, "optargs": ["-k"]})
                else:
                    ctx.nontriv((name, "keep-protons"))
                    rels.append(relations.relate("SameAll", base, text, rk, htext, textcmp=True,
                                                 meta={"input": name, "edit": "own hydrogens + -k", "pdb": htext, "orig": text}))
                    from . import c17
                    conf_k = rk.mol.conformations[rk.mol.conformation_names[0]]
                    nsup = sum(1 for ln in htext.splitlines() if C.is_atom(ln) and ln[76:78].strip() == "H")
                    kept_sets.append((c17.hydrogen_set([a for a in conf_k.atoms if a.element == "H"], nsup),
                                      {"input": name, "pdb": htext}))
    # one larger amino-acid structure for the keep-protons clause only (its own hydrogens come close to each other)
    from . import c04 as _c04
    for name, text in [("1HPX-protein", _c04.protein_only(C.test_pdb_text("1HPX")))]:
        base = runner.run(text, ["-q"])
        htext = with_own_hydrogens(text)
        if base.exc is None and htext:
            rk = runner.run(htext, ["-q", "-k"])
            ctx.count()
            if rk.exc is not None:
                ctx.violation(f"keep-protons:exception:{name}", repr(rk.exc), {"pdb": htext, "optargs": ["-k"]})
            else:
                ctx.nontriv((name, "keep-protons"))
                rels.append(relations.relate("SameAll", base, text, rk, htext, textcmp=True,
                                             meta={"input": name, "edit": "own hydrogens + -k", "pdb": htext, "orig": text}))
                from . import c17
                conf_k = rk.mol.conformations[rk.mol.conformation_names[0]]
                nsup = sum(1 for ln in htext.splitlines() if C.is_atom(ln) and ln[76:78].strip() == "H")
                kept_sets.append((c17.hydrogen_set([a for a in conf_k.atoms if a.element == "H"], nsup), {"input": name, "pdb": htext}))
    # kept hydrogens stay what they were: one heavy parent each, no bond between two hydrogens, none added on top
    if kept_sets:
        import os as _os
        from .. import tlc as _tlc
        wd_ = _tlc.workdir("c07h")
        tf_ = _os.path.join(wd_, "kept.json")
        json.dump([k_[0] for k_ in kept_sets], open(tf_, "w"))
        res_, hv = _tlc.trace_check("Trace_HydSet", ["H_OneParent", "H_NoHH", "H_NoneAdded"], tf_, constants={"MinSep": 500}, timeout=1800)
        ctx.add_tlc(res_, "hydrogen sets of runs that keep the program's own hydrogens")
        ctx.traces += len(kept_sets)
        for inv, idxs in sorted(hv.items()):
            for i_ in idxs[:2]:
                m_ = kept_sets[i_][1]
                ctx.violation(f"keep-protons:{inv}:{m_['input']}", f"{inv} violated by the kept hydrogens of {m_['input']}",
                              {"pdb": m_["pdb"], "optargs": ["-k"]})
    # --protonate-all on every ligand group type (synthetic ligand kit next to a real fragment)
    from .. import runbank
    for name, text, _o in runbank.kit_cases(ctx, every=1 if ctx.thorough() else 9):
        base = runner.run(text, ["-q"])
        rp = runner.run(text, ["-q", "--protonate-all"])
        ctx.count()
        if base.exc is not None or rp.exc is not None:
            if (base.exc is None) != (rp.exc is None):
                ctx.violation(f"protonate-all:exception:{name.split('@')[0]}", f"{name}: default {base.exc!r}, --protonate-all {rp.exc!r}",
                              {"pdb": text, "optargs": ["--protonate-all"]})
            continue
        ctx.nontriv((name, "protonate-all"))
        rels.append(relations.relate("SameAll", base, text, rp, text, textcmp=True,
                                     meta={"input": name.split("@")[0], "edit": "--protonate-all", "pdb": text, "orig": text}))
    viol = relations.validate(ctx, rels, ["SameConfs", "SameAll", "SameBonds", "TextSame"], "edited vs original")
    for inv, lst in sorted(viol.items()):
        for rel in lst:
            m = rel["meta"]
            ctx.violation(f"edit:{m['edit']}:{inv}:{m['input']}",
                          f"{m['edit']} on {m['input']} changes results ({inv}): {relations.diff_summary(rel)}",
                          {"pdb": m["pdb"], "orig": m["orig"], "edit": m["edit"]})
    if rels:
        ctx.sample({"input": rels[0]["meta"]["input"], "edit": rels[0]["meta"]["edit"], "groups_compared": len(rels[0]["A"]["AVR"])})
    ctx.extra["relation_pairs"] = len(rels)


def replay(ctx, path):
    case = json.load(open(path))
    print(case["what"])
