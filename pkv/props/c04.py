"""C04 - predictions do not depend on where the structure sits in space.
Spec: tla/Geometry.tla (24 lattice rotations, translations, distance invariance, knife edges; instantiates
      CellList), tla/Relations.tla + Trace_Rel.tla (SameHeavy, SameBonds, SameAll, HydEquivariant).

M  MC_Geometry: three atoms around cell boundaries x 24 rotations x translation classes: squared distances,
   all-pairs bonds and bridges invariant; the 24 matrices are proper.
G  TLC emits the motions (24 rotations x 6^3 translation classes); the harness applies them exactly (integer
   milli-Angstrom) to real structures, in the three clauses of the statement:
   (a) heavy-atom quantities exact (bonds, protein and ion groups, desolvation, buried) for every structure;
   (b) with supplied hydrogens (keep-protons) everything equal, amino-acid structures;
   (c) hydrogens built in the moved frame = moved hydrogens within 0.001 A per coordinate.
T  Trace_Rel evaluates the relations on the pairs of runs.
"""
import json
import random

from .. import corpus, relations, runner, tlc, pdbio
from . import c07

C = corpus
CUTOFFS = [1500, 2000, 2500, 4000, 10000, 15000, 20000]


def rot_fn(p, s):
    def f(v):
        return (s[0] * v[p[0] - 1], s[1] * v[p[1] - 1], s[2] * v[p[2] - 1])
    return f


def move_text(text, p, s, t):
    R = rot_fn(p, s)
    out = []
    for ln in text.splitlines():
        if C.is_atom(ln):
            r = pdbio.parse_line(ln)
            x, y, z = R((r.x, r.y, r.z))
            ln = pdbio.set_xyz(ln, x + t[0], y + t[1], z + t[2])
        out.append(ln)
    return "\n".join(out) + "\n"


def translation_for(text, p, s, tclass):
    """Concrete integer translation (milli-A) of the class per axis, keeping coordinates inside the PDB field."""
    R = rot_fn(p, s)
    pts = [R((r.x, r.y, r.z)) for r in (pdbio.parse_line(ln) for ln in text.splitlines() if C.is_atom(ln))]
    t = []
    for ax in range(3):
        lo = min(q[ax] for q in pts)
        hi = max(q[ax] for q in pts)
        c = tclass[ax]
        v = {"zero": 0, "unit": 1, "halfcell": 1255, "cell": -2510}.get(c)
        if c == "high":
            v = 9999999 - hi - 99          # the largest coordinate becomes 9999.900: still inside the Real(8.3) field
        elif c == "low":
            v = -999999 - lo + 99          # the smallest coordinate becomes -999.900
        # stay inside the field
        if hi + v > 9999999 or lo + v < -999999:
            v = 0
        t.append(v)
    return tuple(t)


def knife_edge(text):
    """Exact integer test: is any atom-atom squared distance equal to a cut-off squared?"""
    import numpy as np
    pts = np.array([[r.x, r.y, r.z] for r in (pdbio.parse_line(ln) for ln in text.splitlines() if C.is_atom(ln))], dtype=np.int64)
    if len(pts) < 2:
        return False
    cs = np.array([c * c for c in CUTOFFS], dtype=np.int64)
    for i in range(0, len(pts), 400):
        d = pts[i:i + 400, None, :] - pts[None, :, :]
        d2 = (d * d).sum(axis=2)
        if np.isin(d2, cs).any():
            return True
    return False


def protein_only(text):
    return "\n".join(ln for ln in text.splitlines() if not ln.startswith("HETATM")) + "\n"


def shared_proton(htext):
    """A supplied hydrogen moved halfway between its donor nitrogen and a carboxylate / hydroxyl oxygen of another residue
    2.5-2.8 A away (the proton of a very short hydrogen bond: closer than the X-H bond criterion to both). None if the
    structure has no such pair."""
    lines = htext.splitlines()
    atoms = [(i, pdbio.parse_line(ln), ln) for i, ln in enumerate(lines) if C.is_atom(ln)]
    heavy = [a for a in atoms if a[2][76:78].strip() != "H"]
    best = None
    for i, h, ln in atoms:
        if ln[76:78].strip() != "H":
            continue
        d = min(heavy, key=lambda a: (a[1].x - h.x) ** 2 + (a[1].y - h.y) ** 2 + (a[1].z - h.z) ** 2)
        if d[2][76:78].strip() != "N":
            continue
        for a in heavy:
            if a[2][12:16].strip() not in ("OD1", "OD2", "OE1", "OE2") or C.resid(a[2]) == C.resid(d[2]):
                continue
            dd = ((a[1].x - d[1].x) ** 2 + (a[1].y - d[1].y) ** 2 + (a[1].z - d[1].z) ** 2) ** 0.5
            ha = ((a[1].x - h.x) ** 2 + (a[1].y - h.y) ** 2 + (a[1].z - h.z) ** 2) ** 0.5
            if 2500 < dd < 2800 and (best is None or ha < best[0]):
                best = (ha, i, d[1], a[1])
    if best is None:
        return None
    _, i, d, a = best
    # 47 % of the way: nearer to the donor, within the X-H criterion (1.5 A) of both for a separation up to 2.83 A
    lines[i] = pdbio.set_xyz(lines[i], *[(53 * p_ + 47 * q_) // 100 for p_, q_ in ((d.x, a.x), (d.y, a.y), (d.z, a.z))])
    return "\n".join(lines) + "\n"


def near_tie(htext):
    """A supplied hydrogen on a nitrogen and the two oxygens of a carboxylate of another residue, both within 3.7 A of it:
    the farther oxygen is moved (radially, to a point of the 0.001 A grid) so that the two squared H...O distances differ by
    less than 0.0008 A^2 but are not equal - a bifurcated hydrogen bond. None if the structure offers no such triple."""
    lines = htext.splitlines()
    atoms = [(i, pdbio.parse_line(ln), ln) for i, ln in enumerate(lines) if C.is_atom(ln)]
    heavy = [a for a in atoms if a[2][76:78].strip() != "H"]
    d2 = lambda p, q: (p.x - q.x) ** 2 + (p.y - q.y) ** 2 + (p.z - q.z) ** 2  # noqa
    for i, h, ln in atoms:
        if ln[76:78].strip() != "H":
            continue
        par = min(heavy, key=lambda a: d2(a[1], h))
        if par[2][76:78].strip() != "N":
            continue
        for nm1, nm2 in (("OD1", "OD2"), ("OE1", "OE2")):
            for a in heavy:
                if a[2][12:16].strip() != nm1 or C.resid(a[2]) == C.resid(par[2]):
                    continue
                b = [x for x in heavy if x[2][12:16].strip() == nm2 and C.resid(x[2]) == C.resid(a[2])]
                if not b or max(d2(a[1], h), d2(b[0][1], h)) > 3700 ** 2:
                    continue
                near, far = (a, b[0]) if d2(a[1], h) <= d2(b[0][1], h) else (b[0], a)
                r1 = d2(near[1], h)
                f = (r1 ** 0.5) / (d2(far[1], h) ** 0.5)
                tx, ty, tz = (h.x + (far[1].x - h.x) * f, h.y + (far[1].y - h.y) * f, h.z + (far[1].z - h.z) * f)
                best = None
                for dx in range(-12, 13):
                    for dy in range(-12, 13):
                        for dz in range(-12, 13):
                            x, y, z = int(round(tx)) + dx, int(round(ty)) + dy, int(round(tz)) + dz
                            diff = (x - h.x) ** 2 + (y - h.y) ** 2 + (z - h.z) ** 2 - r1
                            if 0 < diff < 800 and (best is None or dx * dx + dy * dy + dz * dz < best[0]):
                                best = (dx * dx + dy * dy + dz * dz, x, y, z)
                if best:
                    lines[far[0]] = pdbio.set_xyz(lines[far[0]], best[1], best[2], best[3])
                    return "\n".join(lines) + "\n"
    return None


def structures(ctx):
    prot = [("1HPX-protein", protein_only(C.test_pdb_text("1HPX"))), ("frag-3SGB-E0+40", C.fragment("3SGB", "E", 0, 40))]
    # incomplete residues: side chains modelled up to the defining atom only (fallback code paths use the group centre)
    frag = C.chain_lines("1HPX", "A", 20, 25)
    trunc = [ln for ln in frag if not (C.is_atom(ln) and ((ln[17:20] == "ASP" and ln[12:16].strip() in ("OD1", "OD2"))
                                                         or (ln[17:20] == "GLU" and ln[12:16].strip() in ("OE1", "OE2"))
                                                         or (ln[17:20] == "ARG" and ln[12:16].strip() in ("NH1", "NH2", "NE"))
                                                         or (ln[17:20] == "LYS" and ln[12:16].strip() in ("CE",))))]
    prot.append(("frag-1HPX-A20+25-truncated", C.join(trunc + [C.TER])))
    # a record repeated 0.02 A away (merged files, stripped alt-loc flags): two atoms, wherever the structure sits
    dup = []
    for ln in frag:
        dup.append(ln)
        if C.is_atom(ln) and ln[17:20] == "ASP" and ln[12:16].strip() == "OD1" and not any("OD1" in x[12:16] and x is not ln and x[17:20] == "ASP" for x in dup[:-1]):
            r = pdbio.parse_line(ln)
            dup.append(pdbio.set_xyz(ln, r.x + 20, r.y, r.z))
    prot.append(("frag-1HPX-A20+25+near-duplicate", C.join(dup + [C.TER])))
    # a planar NH2 group whose N-C(sp2) bond lies exactly along the x axis of the 0.001 A grid (the plane stays tilted):
    # idealised / lattice-built coordinates do that, crystal coordinates practically never
    src = C.chain_lines("3SGB", "E", 0, 40)
    for resn, n_, c_ in (("ARG", "NH1", "CZ"), ("ASN", "ND2", "CG"), ("GLN", "NE2", "CD")):
        rids = []
        for ln in src:
            if C.is_atom(ln) and ln[17:20] == resn and C.resid(ln) not in rids:
                rids.append(C.resid(ln))
        for rid in rids[:1]:
            pn = C.atom_xyz(src, rid[0], rid[1], n_, rid[2])
            pc = C.atom_xyz(src, rid[0], rid[1], c_, rid[2])
            if pn is None or pc is None:
                continue
            al = C.align_to_axis(src, pn, pc, 0)
            an = C.atom_xyz(al, rid[0], rid[1], n_, rid[2])
            snapped = []
            for ln in al:
                if C.is_atom(ln) and C.resid(ln) == rid and ln[12:16].strip() == c_:
                    r = pdbio.parse_line(ln)
                    ln = pdbio.set_xyz(ln, r.x, an[1], an[2])
                snapped.append(ln)
            prot.append((f"frag-3SGB-E0+40-{resn}{rid[1]}-{n_}-{c_}-along-x", C.join(snapped + [C.TER])))
            break
        if len(prot) > 4 and not ctx.thorough():
            break
    het = [("1HPX", C.test_pdb_text("1HPX")), ("4DFR-A", "\n".join(ln for ln in C.test_pdb_text("4DFR").splitlines()
                                                              if not (C.is_atom(ln) and ln[21] != "A")) + "\n")]
    # halogenated ligands (C-F, C-Cl, C-Br, C-I bonds of 1.35 - 2.14 A) around a fragment
    from .. import ligandkit as K
    hb = C.chain_lines("1HPX", "A", 40, 12)
    cx, cy, cz = C.centroid(hb)
    halo = list(hb) + [C.TER]
    for k_, nm in enumerate(("fluoromethane", "chloromethane", "bromomethane", "iodomethane")):
        off = [(9000, 0, 0), (-9000, 1500, 0), (0, 9500, 1000), (500, -9500, -1200)][k_]
        halo += K.lines(nm, (int(cx) + off[0] + 3, int(cy) + off[1] + 7, int(cz) + off[2] + 11), num=500 + k_, serial0=5000 + 10 * k_)
    het.append(("frag-1HPX-A40+12+halomethanes", C.join(halo)))
    # a chain that starts with an aspartate (N+ and the carboxylate are covalently coupled), scored with the optional
    # parameter settings of that coupling (common charge centre, shared determinants): names ending in [tag] get -p
    het.append(("frag-3SGB-I0+14 [ccc+shared+keep]", C.join(C.chain_lines("3SGB", "I", 0, 14) + [C.TER])))
    # a disulfide whose S-S vector (2.0 A) lies along x: every rotation that moves it to another axis or sense (all 24)
    ssl = C.chain_lines("3SGB", "E", 12, 4) + [C.TER] + C.rename_chain(C.chain_lines("3SGB", "E", 32, 4), "E", "F") + [C.TER]
    sgs = [pdbio.parse_line(ln) for ln in ssl if C.is_atom(ln) and ln[17:20] == "CYS" and ln[12:16].strip() == "SG"]
    if len(sgs) >= 2:
        prot.append(("frag-3SGB-disulfide-along-x", C.join(C.align_to_axis(ssl, (sgs[0].x, sgs[0].y, sgs[0].z), (sgs[1].x, sgs[1].y, sgs[1].z), 0))))
    # every atom protonated (names ending in {options}): the extra hydrogens are rotamers chosen in the frame of the
    # structure, the heavy-atom quantities (clause a) do not depend on them
    het.append(("frag-1HPX-A0+45 {--protonate-all}", C.join(C.chain_lines("1HPX", "A", 0, 45) + [C.TER])))
    if ctx.thorough():
        het.append(("3SGB-subset [ccc]", C.test_pdb_text("3SGB-subset")))
        prot += [("3SGB", C.test_pdb_text("3SGB")), ("1FTJ-protein", protein_only(C.test_pdb_text("1FTJ-Chain-A")))]
        het += [("1FTJ-Chain-A", C.test_pdb_text("1FTJ-Chain-A")), ("4DFR", C.test_pdb_text("4DFR"))]
    return prot, het


def opts_for(name):
    """Structures whose name ends in [tag] are scored with the parameter-file variant `tag` of c02.PARAMS."""
    from . import c02
    if name.endswith("]") and "[" in name:
        tag = name[name.rindex("[") + 1:-1]
        return ["-q", "-p", c02.param_file(c02.PARAMS[tag][0], tag)]
    if name.endswith("}") and "{" in name:
        return ["-q"] + name[name.rindex("{") + 1:-1].split()
    return ["-q"]


def run(ctx):
    ctx.rule = ("cases = (structure, lattice rotation, translation class) per clause; non-trivial = motion other than the "
                "identity; distinct = (structure, rotation, translation vector, clause)")
    ctx.assumptions += ["inputs with an atom-atom distance exactly on a cut-off (integer test) are excluded and counted",
                        "ligand groups are outside clause (a) (ring typing depends on bond-list order, see DESIGN)"]
    r = tlc.run("MC_Geometry", "MC_Geometry_t.cfg" if ctx.thorough() else "MC_Geometry.cfg", timeout=3000)
    ctx.add_tlc(r, "lattice motions: distances, bonds, bridges invariant")
    if not r.ok:
        raise tlc.TLCError("spec-level failure in MC_Geometry:\n" + r.stdout[-3000:])
    r = tlc.run("Gen_Geometry", "Gen_Geometry.cfg", workers=1, timeout=600)
    ctx.add_tlc(r, "motion generator")
    motions = r.printed
    rng = random.Random(ctx.seed)
    rng.shuffle(motions)
    # every rotation at least once per clause; translation classes covered across the selection
    by_rot = {}
    for m in motions:
        by_rot.setdefault((tuple(m["p"]), tuple(m["s"])), []).append(m)
    prot, het = structures(ctx)
    rels = []
    skipped = 0
    nper = {"a": 24 if ctx.thorough() else 8, "b": 24 if ctx.thorough() else 6, "c": 24}

    def pick(n, k0):
        keys = sorted(by_rot)
        sel = [keys[(k0 + 3 * i) % len(keys)] for i in range(n)] if n < len(keys) else keys
        return [by_rot[k][(k0 + j) % len(by_rot[k])] for j, k in enumerate(sel)]

    for si, (name, text) in enumerate(het + prot):
        if knife_edge(text):
            skipped += 1
            continue
        base = runner.run(text, opts_for(name), write=False)
        ctx.count()
        if base.exc is not None:
            ctx.violation(f"run:exception:{name}", repr(base.exc), {"pdb": text})
            continue
        is_prot = (name, text) in prot
        # all 24 rotations for the first two amino-acid structures; a rotating third of them for the special-purpose ones
        nrot = nper["a"] if not is_prot else (nper["c"] if (ctx.thorough() or [x[0] for x in prot].index(name) < 2 or "-along-" in name) else 8)
        for m in pick(nrot, si + ctx.seed):
            t = translation_for(text, m["p"], m["s"], m["t"])
            mt = move_text(text, m["p"], m["s"], t)
            R = rot_fn(m["p"], m["s"])
            T = lambda v, R=R, t=t: tuple(a + b for a, b in zip(R(v), t))  # noqa
            rb = runner.run(mt, opts_for(name), write=False)
            ctx.count()
            meta = {"input": name, "motion": {"p": m["p"], "s": m["s"], "t": list(t)}, "pdb": mt, "orig": text}
            if rb.exc is not None:
                ctx.violation(f"moved:exception:{name}", f"moved structure raises {rb.exc!r}", meta)
                continue
            ctx.nontriv((name, tuple(m["p"]), tuple(m["s"]), t, "a"))
            rels.append(relations.relate("SameHeavy", base, text, rb, mt, T=T, with_bonds=True, with_hyd=is_prot,
                                         meta=dict(meta, clause="a+c" if is_prot else "a")))
        # translations that put one of the program's own hydrogens exactly on a coordinate plane (x, y or z = 0.000)
        if is_prot:
            conf0 = base.mol.conformations[base.mol.conformation_names[0]]
            hyd = [a for a in conf0.atoms if a.element == "H" and any(b.element in ("N", "O") for b in a.bonded_atoms)]
            rng2 = random.Random(ctx.seed * 31 + si)
            rng2.shuffle(hyd)
            for k, a in enumerate(hyd[: (12 if ctx.thorough() else 3)]):
                ax = k % 3
                t = [0, 0, 0]
                t[ax] = -int(round((a.x, a.y, a.z)[ax] * 1000))
                if k % 2:
                    t[(ax + 1) % 3] = -int(round((a.x, a.y, a.z)[(ax + 1) % 3] * 1000))
                t = tuple(t)
                mt = move_text(text, [1, 2, 3], [1, 1, 1], t)
                T = lambda v, t=t: tuple(x + y for x, y in zip(v, t))  # noqa
                rb = runner.run(mt, ["-q"], write=False)
                ctx.count()
                meta = {"input": name, "motion": {"p": [1, 2, 3], "s": [1, 1, 1], "t": list(t)}, "pdb": mt, "orig": text}
                if rb.exc is not None:
                    ctx.violation(f"moved:exception:{name}", f"moved structure raises {rb.exc!r}", meta)
                    continue
                ctx.nontriv((name, (1, 2, 3), (1, 1, 1), t, "zero-plane"))
                rels.append(relations.relate("SameHeavy", base, text, rb, mt, T=T, with_bonds=True, with_hyd=True,
                                             meta=dict(meta, clause="a+c")))
        # sub-Angstrom translations along x (a full 0.1 A period in 0.02 A steps) for the structure with a near-duplicate record
        if name.endswith("+near-duplicate"):
            for tx in (20, 40, 60, 80, 100):
                t = (tx, 0, 0)
                mt = move_text(text, [1, 2, 3], [1, 1, 1], t)
                T = lambda v, t=t: tuple(x + y for x, y in zip(v, t))  # noqa
                rb = runner.run(mt, ["-q"], write=False)
                ctx.count()
                meta = {"input": name, "motion": {"p": [1, 2, 3], "s": [1, 1, 1], "t": list(t)}, "pdb": mt, "orig": text}
                if rb.exc is not None:
                    ctx.violation(f"moved:exception:{name}", f"moved structure raises {rb.exc!r}", meta)
                    continue
                ctx.nontriv((name, (1, 2, 3), (1, 1, 1), t, "fine-x"))
                rels.append(relations.relate("SameHeavy", base, text, rb, mt, T=T, with_bonds=True, with_hyd=False,
                                             meta=dict(meta, clause="a")))
    # clause (b): supplied hydrogens; one structure also with the proton of a very short hydrogen bond (a supplied hydrogen
    # within the X-H criterion of two heavy atoms), moved in quarter-cell steps along each axis besides the lattice motions
    quarter = [{"p": [1, 2, 3], "s": [1, 1, 1], "tvec": tuple(sh if ax == k else 0 for k in range(3))}
               for ax in range(3) for sh in (628, 1255, 1883)]
    prot_b = [(n_, t_, None) for n_, t_ in prot]
    for n_, t_ in prot:
        if n_ == "frag-3SGB-E0+40":
            hs_ = c07.with_own_hydrogens(t_)
            sp_ = shared_proton(hs_) if hs_ else None
            if sp_:
                prot_b.append((n_ + "+shared-proton", t_, sp_))
            nt_ = near_tie(hs_) if hs_ else None
            if nt_:
                prot_b.append((n_ + "+bifurcated-hydrogen-bond", t_, nt_))
    if ctx.thorough():
        f45 = C.join(C.chain_lines("1HPX", "A", 0, 45) + [C.TER])
        h45 = c07.with_own_hydrogens(f45)
        n45 = near_tie(h45) if h45 else None
        if n45:
            prot_b.append(("frag-1HPX-A0+45+bifurcated-hydrogen-bond", f45, n45))
    for si, (name, text, given) in enumerate(prot_b):
        htext = given or c07.with_own_hydrogens(text)
        if not htext or knife_edge(htext):
            skipped += 1
            continue
        base = runner.run(htext, ["-q", "-k"], write=False)
        ctx.count()
        if base.exc is not None:
            ctx.violation(f"run:exception:{name}:-k", repr(base.exc), {"pdb": htext, "optargs": ["-k"]})
            continue
        for m in pick(nper["b"], si + 5 + ctx.seed) + (quarter if given else []):
            t = m["tvec"] if "tvec" in m else translation_for(htext, m["p"], m["s"], m["t"])
            mt = move_text(htext, m["p"], m["s"], t)
            R = rot_fn(m["p"], m["s"])
            T = lambda v, R=R, t=t: tuple(a + b for a, b in zip(R(v), t))  # noqa
            rb = runner.run(mt, ["-q", "-k"], write=False)
            ctx.count()
            meta = {"input": name, "motion": {"p": m["p"], "s": m["s"], "t": list(t)}, "pdb": mt, "orig": htext,
                    "optargs": ["-k"], "clause": "b"}
            if rb.exc is not None:
                ctx.violation(f"moved:exception:{name}:-k", f"moved structure raises {rb.exc!r}", meta)
                continue
            ctx.nontriv((name, tuple(m["p"]), tuple(m["s"]), t, "b"))
            rels.append(relations.relate("SameAll", base, htext, rb, mt, T=T, with_bonds=True, meta=meta))
    ctx.extra["knife_edge_skipped"] = skipped
    viol = relations.validate(ctx, rels, ["SameConfs", "SameHeavy", "SameBonds", "SameAll", "HydEquivariant"], "moved vs original")
    seen = set()
    for inv, lst in sorted(viol.items()):
        for rel in lst:
            m = rel["meta"]
            rotkey = "".join(map(str, m["motion"]["p"])) + "".join("+" if x > 0 else "-" for x in m["motion"]["s"])
            key = f"moved:{inv}:clause-{m['clause']}:{m['input']}"
            if key in seen:
                continue
            seen.add(key)
            detail = relations.diff_summary(rel) if inv != "HydEquivariant" else hyd_diff(rel)
            ctx.violation(key, f"{m['input']} moved by {m['motion']} ({rotkey}): {detail}",
                          {"pdb": m["pdb"], "orig": m["orig"], "optargs": m.get("optargs", [])})
    if rels:
        ctx.sample({"input": rels[0]["meta"]["input"], "motion": rels[0]["meta"]["motion"], "clause": rels[0]["meta"]["clause"]})
    ctx.extra["relation_pairs"] = len(rels)
    ctx.extra["hydrogens_compared"] = sum(len(r["hydA"]) for r in rels)


def hyd_diff(rel):
    a, b = rel["hydA"], rel["hydB"]
    if len(a) != len(b):
        return f"{len(a)} hydrogens moved vs {len(b)} built in the moved frame"
    out = []
    for h in a:
        if not any(h[0] == k[0] and all(abs(h[i] - k[i]) <= rel["epsc"] for i in (1, 2, 3)) for k in b):
            out.append(h)
    return f"hydrogens without a counterpart within {rel['epsc']} milli-A: {out[:4]}"


def replay(ctx, path):
    case = json.load(open(path))
    print(case["what"])
