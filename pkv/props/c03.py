"""C03 - results are a pure function of input content and options.
Spec: tla/RunHistory.tla (process-level state across calls; hazards as self-tests), tla/Trace_RunHistory.tla,
      tla/MC_Display.tla (the -d display of a coupled system does not depend on the iteration order of the set of
      identity-hashed groups; mechanism in the set's own order is refuted - F12; binding: pkv/display.py).

M  RunHistory: all histories of <= 4 calls (single / main with two files) over contents incl. one with an unknown
   element x options: equal (content, options) => equal observation; three hazard models must be refuted.
G  TLC emits every history shape of length 3 over 4 contents x 4 option settings x {single, main}; a seeded
   selection is executed, each history in a fresh interpreter with varied hash seed, Group.__hash__ permutation,
   allocation pattern, working directory and path/stream input.
T  Trace_RunHistory: digests (every group, determinant, profile, pI, .pka text minus the date line) are equal
   within each history and equal to the reference digest of the same (content, options) run alone.
"""
import json
import os
import random
import subprocess
import sys
from concurrent.futures import ThreadPoolExecutor

from .. import corpus, tlc, pdbio, core

C = corpus
WORKER = os.path.join(os.path.dirname(os.path.dirname(os.path.abspath(__file__))), "histworker.py")


def contents():
    a = C.fragment("1HPX", "A", 20, 10)
    base = C.chain_lines("1HPX", "A", 40, 10)
    cx, cy, cz = C.centroid(base)
    q = [pdbio.atom_line("HETATM", 900, "Q1", " ", "UNK", "X", 900, " ", cx + 6000, cy, cz, elem="Q"),
         pdbio.atom_line("HETATM", 901, "C1", " ", "UNK", "X", 900, " ", cx + 7400, cy, cz, elem="C")]
    u = C.join(base + [C.TER] + q)
    m = C.join(C.rename_chain(C.body(C.test_pdb_text("conf-alt-AB")), " ", "A"))
    pa = C.chain_lines("1HPX", "A", 20, 12)       # Asp25 / Asp25' of the dimer: a non-covalently coupled pair
    pb = C.chain_lines("1HPX", "B", 20, 12)
    c = C.join(pa + [C.TER] + pb + [C.TER])
    # "b": content "a" with one side chain displaced - another structure in a file of exactly the same size
    bl = []
    for ln in a.splitlines():
        if C.is_atom(ln) and ln[17:20] in ("ASP", "GLU", "LYS") and ln[12:16].strip() not in ("N", "CA", "C", "O", "CB"):
            r = pdbio.parse_line(ln)
            ln = pdbio.set_xyz(ln, r.x + 900, r.y - 700, r.z + 400)
        bl.append(ln)
    b = "\n".join(bl) + "\n"
    assert len(b) == len(a) and b != a
    # "f": content "a" behind a UTF-8 byte-order mark (files saved by some editors); path and stream read the same text
    # "t": a structure with a non-covalently coupled system of three groups (1FTJ: Glu 193 and the two carboxylates of the
    # bound glutamate): with -d the order in which the system is walked must not depend on the interpreter's hash seed
    t = C.test_pdb_text("1FTJ-Chain-A")
    # "p": a covalently coupled system of three groups two of which almost tie (methyl phosphate: O2 and O3 differ in the
    # fourth decimal of their pKa through a few carbons placed almost on their mirror plane): which of them is penalised
    # must not depend on the order a set of identity-hashed groups iterates in
    k_ = 878
    ph = [("P1", "P", 0, 0, 0), ("O1", "O", k_, k_, k_), ("O2", "O", k_, -k_, -k_), ("O3", "O", -k_, k_, -k_), ("O4", "O", -k_, -k_, k_),
          ("C1", "C", -1703, -1703, 1703)]
    bulk = [(4, 0, -4900), (2100, 2097, -5200), (-2100, -2102, -5200), (0, 3, -7300), (2300, 2300, -7600), (-2300, -2298, -7600)]
    pl = [pdbio.atom_line("HETATM", i + 1, nm, " ", "MPH", "A", 1, " ", x + 20000, y + 20000, z + 20000, elem=el)
          for i, (nm, el, x, y, z) in enumerate(ph)]
    pl += [pdbio.atom_line("HETATM", 10 + i, "C%d" % (i + 1), " ", "BLK", "A", 2, " ", x + 20000, y + 20000, z + 20000, elem="C")
           for i, (x, y, z) in enumerate(bulk)]
    p = C.join(pl)
    # "r": two chains, the first without terminal oxygen, separated by a TER record without trailing blanks, written with
    # CR-LF line ends (a path is read with universal newlines, a stream as it is)
    ra = [ln for ln in C.chain_lines("1HPX", "A", 85, 14) if ln[12:16].strip() != "OXT"]
    rb = C.chain_lines("1HPX", "B", 0, 10)
    r_ = "\r\n".join([ln.rstrip() if ln.startswith("TER") else ln for ln in ra + ["TER"] + rb + ["TER", "END"]]) + "\r\n"
    return {"a": a, "u": u, "m": m, "c": c, "b": b, "f": "\ufeff" + a, "t": t, "p": p, "r": r_}


def options_for(cid, o, texts):
    """Option lists are the same for every content (one run.main invocation applies one list to all its files)."""
    return {"default": [], "d": ["-d"], "c": ["-c", "A"], "i": ["-i", "A:21,A:24,A:25,A:2,A:43,A:45,A:47,B:25"],
            "p": ["-p", "custom.cfg"], "cB": ["-c", "B"]}[o]


def custom_cfg():
    """A parameter file with other cut-offs (written into the working directory of every history)."""
    txt = open(os.path.join(core.REPO, "propka", "propka.cfg")).read()
    # (... and another threshold of the coupling analysis: with it the Asp 25 pair of content c is not coupled)
    return txt + "\ndesolv_cutoff 16.0\nburied_cutoff 12.0\ncoulomb_cutoff2 8.0\nsidechain_interaction 0.80\nmin_interaction_energy 50.0\n"


def execute(spec, hashseed):
    wd = tlc.workdir("hist")
    sp = os.path.join(wd, "spec.json")
    spec = dict(spec, cwd=os.path.join(wd, spec.get("cwdname", "A")))
    json.dump(spec, open(sp, "w"))
    env = dict(os.environ, PYTHONHASHSEED=str(hashseed), PYTHONDONTWRITEBYTECODE="1", PKV_REPO=core.REPO)
    p = subprocess.run([sys.executable, WORKER, sp], stdout=subprocess.PIPE, stderr=subprocess.PIPE, text=True, env=env, timeout=900)
    import shutil
    res = None
    for ln in p.stdout.splitlines():
        if ln.startswith("PKVRESULT "):
            res = json.loads(ln[10:])
    shutil.rmtree(wd, ignore_errors=True)
    if res is None:
        raise tlc.TLCError("history worker failed:\n" + p.stdout[-1500:] + p.stderr[-1500:])
    return res


def run(ctx):
    ctx.rule = ("cases = histories of three calls (TLC-emitted shapes) executed in fresh interpreters with varied hash seed, "
                "hash permutation, allocation pattern, cwd and path/stream input; non-trivial = history in which a key recurs "
                "or differs from the reference environment; distinct = (shape, environment)")
    for f, expect in (("FALSE_FALSE_FALSE", None), ("TRUE_FALSE_FALSE", "Pure"), ("FALSE_TRUE_FALSE", "Pure"), ("FALSE_FALSE_TRUE", "Pure"),
                      ("cache", "Pure")):
        r = tlc.run("RunHistory", f"MC_RunHistory_{f}.cfg", timeout=1200)
        ctx.add_tlc(r, f"histories <= 4 calls, hazards (valence, nccg, params) = {f}")
        if expect is None and not r.ok:
            raise tlc.TLCError("spec-level failure in RunHistory:\n" + r.stdout[-3000:])
        if expect and r.invariant_violated not in ("Pure", "PureRef"):
            raise tlc.TLCError(f"self-test {f} was not refuted")
    r = tlc.run("Gen_RunHistory", "Gen_RunHistory.cfg", workers=1, timeout=1200)
    ctx.add_tlc(r, "history shape generator")
    shapes = [c["shape"] for c in r.printed]
    rng = random.Random(ctx.seed)
    # favour shapes with a recurring key and shapes mixing main and single
    def score(s):
        keys = [(x["c"], x["o"]) for x in s]
        return (len(set(keys)) < len(keys)) + any(x["via"] != "single" for x in s)
    shapes.sort(key=lambda s: (-score(s), json.dumps(s)))
    n = 600 if ctx.thorough() else 120
    top = shapes[: len(shapes) // 3]
    chosen = rng.sample(top, min(len(top), n * 2 // 3)) + rng.sample(shapes, min(len(shapes), n // 3))
    # systematic part: every key repeated at once, and repeated after another option on the same content
    allkeys = sorted({(x["c"], x["o"]) for s in shapes for x in s})
    allvia = sorted({x["via"] for s in shapes for x in s})
    systematic = []
    for (c, o) in allkeys:
        systematic.append([{"c": c, "o": o, "via": "single"}, {"c": c, "o": o, "via": "single"}, {"c": c, "o": o, "via": allvia[ctx.seed % len(allvia)]}])
        others = [k for k in allkeys if k[0] == c and k[1] != o]
        if others:
            c2, o2 = others[(ctx.seed + len(systematic)) % len(others)]
            systematic.append([{"c": c, "o": o, "via": "single"}, {"c": c2, "o": o2, "via": "single"}, {"c": c, "o": o, "via": "single"}])
    # one path reused for successive contents of equal size with a preserved time stamp
    for x, y in (("a", "b"), ("b", "a")):
        systematic.append([{"c": x, "o": "default", "via": "single", "fname": "frame.pdb", "mode": "path"},
                           {"c": y, "o": "default", "via": "single", "fname": "frame.pdb", "mode": "path"},
                           {"c": x, "o": "default", "via": "single", "fname": "frame.pdb", "mode": "path"}])
    # the second chain selected first, then everything: nothing of the first call may show in the second
    systematic.append([{"c": "c", "o": "cB", "via": "single"}, {"c": "c", "o": "default", "via": "single"}, {"c": "c", "o": "cB", "via": "single"}])
    systematic.append([{"c": "c", "o": "cB", "via": "single"}, {"c": "c", "o": "d", "via": "main1"}, {"c": "a", "o": "default", "via": "single"}])
    systematic.append([{"c": "f", "o": "default", "via": "single", "mode": "path"}, {"c": "f", "o": "default", "via": "single", "mode": "stream"},
                       {"c": "f", "o": "default", "via": "main1", "mode": "path"}])
    systematic.append([{"c": "r", "o": "default", "via": "single", "mode": "path"}, {"c": "r", "o": "default", "via": "single", "mode": "stream"},
                       {"c": "r", "o": "default", "via": "main1", "mode": "path"}])
    # the caller's stream object handed in twice, and one the caller has already read from
    systematic.append([{"c": "a", "o": "default", "via": "single", "mode": "stream-reused"}, {"c": "a", "o": "default", "via": "single", "mode": "stream-reused"},
                       {"c": "a", "o": "default", "via": "single", "mode": "path"}])
    systematic.append([{"c": "c", "o": "default", "via": "single", "mode": "stream-read"}, {"c": "c", "o": "d", "via": "single", "mode": "stream-reused"},
                       {"c": "c", "o": "d", "via": "single", "mode": "stream-reused"}])
    for hs_ in (range(1, 9) if not ctx.thorough() else range(1, 25)):
        systematic.append([{"c": "t", "o": "d", "via": "single", "mode": "path", "hs": hs_}])
        systematic.append([{"c": "p", "o": "default", "via": "single", "mode": "stream", "hs": hs_, "perm": True}])
    chosen = systematic + chosen
    texts = contents()
    files = {"custom.cfg": custom_cfg()}
    # reference digests: each key alone, fresh interpreter, default environment (both API digest and text digest)
    keys = sorted({(x["c"], x["o"]) for s in chosen for x in s})
    jobs = []
    for (c, o) in keys:
        step = {"c": c, "o": options_for(c, o, texts), "via": "single", "mode": "path"}
        jobs.append(("ref", {"inputs": texts, "files": files, "steps": [step], "hashperm": None, "alloc": 0}, 0))
        jobs.append(("reftext", {"inputs": texts, "files": files, "steps": [dict(step, via="main1")], "hashperm": None, "alloc": 0}, 0))
    for k, s in enumerate(chosen):
        steps = [dict({"c": x["c"], "o": options_for(x["c"], x["o"], texts), "via": x["via"],
                       "mode": x.get("mode") or rng.choice(["path", "stream"])}, **({"fname": x["fname"]} if x.get("fname") else {}))
                 for x in s]
        cwdname = rng.choice(["A", "B/sub", "D"])
        hfiles = dict(files)
        if cwdname == "D":
            hfiles["propka.cfg"] = custom_cfg()      # a parameter file of the same name as the shipped one in the cwd
        jobs.append(("hist", {"inputs": texts, "files": hfiles, "steps": steps, "cwdname": cwdname, "hashperm": rng.randrange(1, 10 ** 6) if s[0].get("perm") else rng.choice([None, rng.randrange(10 ** 6)]),
                              "alloc": rng.randrange(0, 10 ** 6)},
                     s[0].get("hs", rng.choice([0, 1, 12345, rng.randrange(10 ** 6)]))))
    with ThreadPoolExecutor(max_workers=14) as ex:
        results = list(ex.map(lambda j: execute(j[1], j[2]), jobs))
    ref = {}
    hist = []
    for (kind, spec, hs), res in zip(jobs, results):
        ctx.count(len(res))
        if kind in ("ref", "reftext"):
            r0 = res[0]
            ref[(r0["key"], r0["dig"].startswith("TEXT:"))] = r0["dig"]
        else:
            hist.append({"runs": res, "spec": {"steps": spec["steps"], "hashperm": spec["hashperm"], "alloc": spec["alloc"],
                                               "cwd": spec.get("cwdname"), "hashseed": hs}})
    # Trace: normalise digests to the reference of their kind
    trace = {"hist": [], "ref": {}}
    for (key, is_text), dig in ref.items():
        trace["ref"][key + ("#text" if is_text else "")] = dig
    for h in hist:
        runs = []
        for x in h["runs"]:
            k = x["key"] + ("#text" if x["dig"].startswith("TEXT:") else "")
            if x["dig"] == "EXCEPTION":
                k = x["key"]
            runs.append({"key": k, "dig": x["dig"]})
        trace["hist"].append({"runs": runs})
        ctx.nontriv(json.dumps(h["spec"], sort_keys=True))
    for k in list(trace["ref"]):
        base = k.replace("#text", "")
        trace["ref"].setdefault(base, trace["ref"][k])
    wd = tlc.workdir("c03")
    tf = os.path.join(wd, "hist.json")
    json.dump(trace, open(tf, "w"))
    res, viol = tlc.trace_check("Trace_RunHistory", ["PureWithin", "PureAgainstReference", "NoFailure"], tf, timeout=1200)
    ctx.add_tlc(res, "trace validation of %d executed histories" % len(hist))
    ctx.traces += len(hist)
    seen = set()
    for inv, idxs in sorted(viol.items()):
        for i in idxs:
            h = hist[i]
            badkeys = sorted({x["key"] for x in h["runs"] if x["dig"] == "EXCEPTION" or
                              trace["ref"].get(x["key"] + ("#text" if x["dig"].startswith("TEXT:") else "")) != x["dig"]})
            opts = sorted({k.split(" ", 1)[1] if " " in k else "" for k in badkeys})
            key = f"history:{inv}:{'|'.join(opts)[:40]}"
            if key in seen:
                continue
            seen.add(key)
            ctx.violation(key, f"history {h['spec']} -> results differ for {badkeys} "
                               f"{[x.get('exc') for x in h['runs'] if x.get('exc')]}", {"history": h["spec"]})
    # ---- stage traces (tla/Pipeline.tla): an in-process history, every call recorded stage by stage -------------------
    from .. import pipeline, runner
    seq = [("m", []), ("c", ["-d"]), ("a", []), ("m", []), ("c", ["-d"]), ("u", []), ("a", []), ("c", [])]
    if ctx.thorough():
        seq = seq + [("m", ["-c", "A"]), ("c", ["-i", "A:25,B:25"]), ("m", ["-c", "A"]), ("u", []), ("c", ["-i", "A:25,B:25"])]
    with pipeline.recording() as ev:
        for cid, opts in seq:
            runner.run(texts[cid], ["-q"] + opts)
            ctx.count()
    r = tlc.run("MC_Pipeline", "MC_Pipeline.cfg", timeout=600)
    ctx.add_tlc(r, "stage machine: loops are barriers, average after every conformation, counts frozen")
    if not r.ok:
        raise tlc.TLCError("spec-level failure in MC_Pipeline:\n" + r.stdout[-3000:])
    traces = pipeline.split_runs(ev)
    # binding self-test: a corrupted field, a removed event and a swapped stage order must be rejected
    if traces and len(traces[0]) > 6:
        t0 = traces[0]
        c1 = [dict(e, dirty=1) if e["ev"] == "Score" else e for e in t0]
        c2 = [e for e in t0 if e["ev"] != "Sort"]
        k = next(i for i, e in enumerate(t0) if e["ev"] == "Average")
        c3 = t0[:k - 1] + [t0[k], t0[k - 1]] + t0[k + 1:]
        rej, _inc = pipeline.validate(ctx, [c1, c2, c3], "binding self-test: corrupted traces")
        ctx.traces -= 3
        ctx.extra["stage_trace_selftest_rejected"] = sorted(rej) == [0, 1, 2]
        if sorted(rej) != [0, 1, 2]:
            raise tlc.TLCError(f"binding self-test failed: corrupted stage traces accepted ({rej})")
    rejected, incomplete = pipeline.validate(ctx, traces, "stage traces of an in-process history")
    ctx.extra["stage_traces"] = {"runs": len(traces), "events": sum(len(t) for t in traces), "rejected": len(rejected),
                                 "incomplete": len(incomplete)}
    for i, at in sorted(rejected.items()):
        ctx.note(f"BEYOND-PROPERTIES: stage trace of call {seq[i] if i < len(seq) else i} is not a behaviour of Pipeline: "
                 f"rejected at event {at}: {traces[i][at - 1] if 0 < at <= len(traces[i]) else '?'}")
    if len(traces) == len(seq):
        first = {}
        for i, (cid, opts) in enumerate(seq):
            k = (cid, tuple(opts))
            if k in first and traces[first[k]] != traces[i]:
                diff = next((j for j, (x, y) in enumerate(zip(traces[first[k]], traces[i])) if x != y), min(len(traces[first[k]]), len(traces[i])))
                ctx.violation(f"history:stage-trace-differs:{' '.join(opts) or 'default'}",
                              f"call {i} repeats call {first[k]} ({cid} {opts}) but its stage trace differs from event {diff + 1}: "
                              f"{traces[first[k]][diff:diff + 1]} vs {traces[i][diff:diff + 1]}",
                              {"history": {"inprocess": [[c_, o_] for c_, o_ in seq[: i + 1]]}})
            first.setdefault(k, i)
    else:
        ctx.note(f"stage traces: {len(traces)} traces for {len(seq)} calls (a call failed before reading)")
    if traces:
        ctx.sample({"stage_trace": traces[0][:6]})
    if hist:
        ctx.sample(hist[0]["spec"])
    ctx.extra["histories_executed"] = len(hist)
    ctx.extra["reference_runs"] = len(ref)
    # the coupled-residue display (-d) in isolation: MC_Display.tla and its replay through the real print_out_swaps with the
    # coupled system iterating in every order a set of identity-hashed groups can have (deterministic, unlike addresses)
    from .. import display
    for key, msg, payload in display.run(ctx, ctx.thorough()):
        ctx.violation(key, msg, payload)


def replay(ctx, path):
    case = json.load(open(path))
    print(case["what"])
    if "config" in case.get("payload", {}):
        from .. import display
        c = case["payload"]["config"]
        print("set order", c["order"], "->", display.real_display(c, list(c["order"]))[0])
        print("set order [1, 2, 3] ->", display.real_display(c, [1, 2, 3])[0])
        return
