"""C10 - proton linkage, optimum, ranges, grids and windows.  Spec: tla/Profiles.tla (+ MC_Profiles, Trace_Profiles).

M  grid by accumulation = grid by index with both end points; window rows; linkage interval lemma.
G  every (min, max, step) triple and every (window, grid step) emitted by TLC is replayed through the real
   lib.make_grid / output.get_folding_profile_section and compared with the emitted point lists.
T  real runs over inputs x grids x windows: TLC checks on the API values and the parsed .pka text the
   exact grid, per-group and total proton linkage by interval arithmetic, optimum, ranges, and both tables.
"""
import json

from .. import tlc, pkaparse, runner
from . import profcommon as pc


def run(ctx):
    from propka.lib import make_grid
    import propka.output as pout
    ctx.rule = ("cases = (min,max,step) grids and (window, grid step) pairs emitted by TLC, and real runs "
                "(input x grid x window); non-trivial = grid whose (max-min)/step is integral or window step != 1; "
                "run with >= 1 titratable group")
    r = tlc.run("MC_Profiles", "MC_Profiles.cfg", timeout=1200)
    ctx.add_tlc(r, "grids, windows, (charge family, bisection)")
    if not r.ok:
        raise tlc.TLCError("spec-level failure in MC_Profiles:\n" + r.stdout[-3000:])
    r = tlc.run("MC_Profiles", "Gen_Profiles.cfg", workers=1, timeout=1200)
    ctx.add_tlc(r, "grid/window generator")
    if not r.ok:
        raise tlc.TLCError("generator failed:\n" + r.stdout[-3000:])
    mol = pc.tiny_mol()
    bad = {}
    for c in r.printed:
        if c.get("k") == "grid":
            mn, mx, st = c["min"] / 100.0, c["max"] / 100.0, c["step"] / 100.0
            exp = [p / 100.0 for p in c["pts"]]
            ctx.count()
            if (c["max"] - c["min"]) % c["step"] == 0:
                ctx.nontriv(("grid", c["min"], c["max"], c["step"]))
            got = []
            try:
                for x in make_grid(mn, mx, st):
                    got.append(x)
                    if len(got) > len(exp) + 5:
                        break
            except Exception as ex:  # noqa
                bad.setdefault("grid:exception", (c, repr(ex)))
                continue
            if len(got) != len(exp) or any(abs(a - b) > 1e-9 for a, b in zip(got, exp)):
                kind = "endpoint-lost" if len(got) == len(exp) - 1 else "points"
                bad.setdefault(f"grid:{kind}:step{c['step']}", (c, f"make_grid({mn}, {mx}, {st}) gives {len(got)} points "
                               f"ending at {got[-1] if got else None}; requested grid has {len(exp)} ending at {exp[-1]}"))
            if len(ctx.samples) < 2 and c["step"] in (20, 70):
                ctx.sample({"grid": [mn, mx, st], "expected_points": len(exp), "got_points": len(got)})
        elif c.get("k") == "win":
            w = (c["w0"] / 100.0, c["w1"] / 100.0, c["w2"] / 100.0)
            mol.options.grid = (0.0, 14.0, c["gstep"] / 100.0)
            ctx.count()
            if c["w2"] != 100:
                ctx.nontriv(("win", c["w0"], c["w1"], c["w2"], c["gstep"]))
            try:
                with runner.quiet():
                    txt = pout.get_folding_profile_section(mol, conformation="AVR", window=w)
            except Exception as ex:  # noqa
                bad.setdefault("window:exception", (c, repr(ex)))
                continue
            rows = pkaparse.parse(" RESIDUE    pKa\n\n\nSUMMARY OF THIS PREDICTION\n\n-----\n" + txt)["fold_rows"]
            got = [p for p, _ in rows]
            if got != c["rows"]:
                extra = sorted(set(got) - set(c["rows"]))
                miss = sorted(set(c["rows"]) - set(got))
                kind = "extra" if extra and not miss else "missing" if miss and not extra else "both"
                bad.setdefault(f"window:{kind}:step{c['w2']}:from{c['w0']}", (c, f"window {w} on grid step {c['gstep']/100}: "
                               f"printed pH (x100) extra={extra[:8]} missing={miss[:8]}"))
    ctx.traces += 1
    for k, (c, msg) in sorted(bad.items()):
        ctx.violation(k, msg, c)
    # ---- T -----------------------------------------------------------------------------
    recs, meta = pc.real_records(ctx)
    for m in meta:
        if "exc" in m:
            ctx.violation(f"run:exception:{m['input']}", f"{m}", m)
        elif m.get("groups", 0) >= 1:
            ctx.nontriv(json.dumps(m))
    # the written file as a sentence of PkaFile.tla: every profile part the API computes is printed, once, in its place
    from .. import pkafile
    lay = [m for m in meta if m.get("_layout")]
    if lay:
        lv = pkafile.validate(ctx, [m["_layout"] for m in lay], "files of the profile runs")
        for inv, idxs in sorted(lv.items()):
            if inv not in ("F_Accepted", "F_Profiles"):
                continue
            for i_ in idxs[:2]:
                m = {k: v for k, v in lay[i_].items() if not k.startswith("_")}
                ctx.violation(f"trace:{inv}:{m['input']}", f"{inv} violated by the file written for {m}", m)
    for m in meta:
        m.pop("_layout", None)
    viol = pc.validate(ctx, recs, meta, pc.C10_INV)
    for inv, ms in sorted(viol.items()):
        seen = set()
        for m in ms:
            key = f"trace:{inv}:g{'_'.join(m['grid'])}:w{'_'.join(m['window'])}" if inv in ("GridExact", "ChargeGrid", "FoldRows") \
                else f"trace:{inv}:{m['input']}"
            if key in seen:
                continue
            seen.add(key)
            ctx.violation(key, f"{inv} violated on {m}", m)
    ctx.sample({"run": meta[0]})


def replay(ctx, path):
    from propka.lib import make_grid
    case = json.load(open(path))
    print(case["what"])
    p = case["payload"]
    if isinstance(p, dict) and p.get("k") == "grid":
        print(list(make_grid(p["min"] / 100.0, p["max"] / 100.0, p["step"] / 100.0))[-3:])
