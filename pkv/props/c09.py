"""C09 - charge curves and isoelectric points.  Spec: tla/Profiles.tla (+ MC_Profiles, Trace_Profiles).

M  exact charge family (integer pK - pH): bounds, mid-point, monotonicity, sign-monotone totals;
   bisection mechanism over every threshold of a 1024-point lattice: bracket invariant, result within
   precision, termination.
G  every site set of the family (1-3 sites, q = +-1, distinct model/predicted pK) emitted by TLC with the
   exact per-site fractions and the unit bracket of each pI is built from real Group objects; the real
   get_charge_profile / get_pi are compared with the rationals.
T  real runs (test structures, fragments, a structure without groups; several grids): per-group
   charges at the grid nodes and at pH = pK, profile rows, pI and the printed table are checked by TLC.
"""
import json
from fractions import Fraction

from .. import tlc
from . import profcommon as pc


def run(ctx):
    ctx.rule = ("cases = site sets of the exact family (TLC-emitted) and real runs (input x grid x window); "
                "non-trivial = family case with >= 2 sites or a pI bracket; run with >= 1 titratable group")
    ctx.assumptions += ["absolute accuracy of a single-site curve between integer pK-pH offsets is not decided "
                        "(bounds, mid-point, monotonicity, additivity and exact values at integer offsets are)"]
    r = tlc.run("MC_Profiles", "MC_Profiles.cfg", timeout=1200)
    ctx.add_tlc(r, "charge family, bisection mechanism, grids/windows")
    if not r.ok:
        raise tlc.TLCError("spec-level failure in MC_Profiles:\n" + r.stdout[-3000:])
    # ---- G -----------------------------------------------------------------------------
    r = tlc.run("MC_Profiles", "Gen_Profiles.cfg", workers=1, timeout=1200)
    ctx.add_tlc(r, "family generator")
    if not r.ok:
        raise tlc.TLCError("generator failed:\n" + r.stdout[-3000:])
    mol = pc.tiny_mol()
    bad = {}
    ncase = 0
    for c in r.printed:
        if c.get("k") != "charge":
            continue
        ncase += 1
        if not ctx.thorough() and len(c["sites"]) == 3 and ncase % 4:
            continue
        sites = c["sites"]
        phs = c["phs"]
        pc.set_sites(mol, sites)
        ctx.count()
        if len(sites) >= 2 or c["bf"] or c["bu"]:
            ctx.nontriv(json.dumps(sites))
        try:
            prof = mol.get_charge_profile(conformation="AVR", grid=(float(phs[0]), float(phs[-1]), 1.0))
            pif, piu = mol.get_pi(conformation="AVR")
        except Exception as ex:  # noqa
            bad.setdefault("family:exception", (sites, repr(ex)))
            continue
        if len(prof) != len(phs):
            bad.setdefault("family:grid", (sites, f"{len(prof)} rows for integer grid {phs}"))
            continue
        fold = c["fold"] if isinstance(c["fold"], dict) else {str(p): v for p, v in zip(phs, c["fold"])}
        unf = c["unf"] if isinstance(c["unf"], dict) else {str(p): v for p, v in zip(phs, c["unf"])}
        for row, ph in zip(prof, phs):
            ff, uf = fold[str(ph)], unf[str(ph)]
            ef = sum(Fraction(n, d) for n, d in ff)
            eu = sum(Fraction(n, d) for n, d in uf)
            if abs(row[1] - float(eu)) > 1e-9 or abs(row[2] - float(ef)) > 1e-9:
                which = "swapped" if abs(row[1] - float(ef)) < 1e-9 and abs(row[2] - float(eu)) < 1e-9 else "value"
                bad.setdefault(f"family:charge-{which}", (sites, f"pH {ph}: (unfolded, folded) = ({row[1]}, {row[2]}) "
                                                                 f"expected ({float(eu)}, {float(ef)})"))
        for lab, got, br in (("folded", pif, c["bf"]), ("unfolded", piu, c["bu"])):
            if br and not (br[0] - 1e-3 <= got <= br[0] + 1 + 1e-3):
                bad.setdefault(f"family:pi-{lab}", (sites, f"pI {got} outside the bracket [{br[0]}, {br[0] + 1}] of the "
                                                           f"{lab} curve"))
        if len(ctx.samples) < 3 and len(sites) == 3 and c["bf"]:
            ctx.sample({"sites": sites, "pI": [pif, piu], "bracket_folded": c["bf"], "bracket_unfolded": c["bu"]})
    ctx.traces += 1
    for k, (sites, msg) in sorted(bad.items()):
        ctx.violation(k, f"sites {sites}: {msg}", {"sites": sites})
    # ---- T -----------------------------------------------------------------------------
    recs, meta = pc.real_records(ctx)
    for m in meta:
        m.pop("_layout", None)          # (the file layout of these runs is judged by C10)
    # sites whose pKa lies far outside the pH range (a buried tyrosine at 20, an acid at -3, a base at 18 or -2): the exact
    # family cannot hold 10^20 in TLC's integers, the axioms (between zero and the formal charge, never increasing with pH,
    # totals = sums) are checked on the recorded curves
    from .. import profiles
    frecs, fmeta = [], []
    for sites_ in ([{"q": -1, "pk": 20, "mk": 10}, {"q": 1, "pk": 18, "mk": 12}, {"q": -1, "pk": -3, "mk": 4}],
                   [{"q": -1, "pk": 17, "mk": 17}, {"q": 1, "pk": -2, "mk": 6}, {"q": -1, "pk": 31, "mk": -20}]):
        try:
            frecs.append(profiles.record(pc.set_sites(pc.tiny_mol(), sites_), ("0", "14", "0.5"), ("0", "14", "1"), None))
            fmeta.append({"input": "far-sites " + json.dumps(sites_), "grid": ("0", "14", "0.5"), "window": ("0", "14", "1"),
                          "groups": len(sites_), "nodes": 29})
        except Exception as ex:  # noqa
            ctx.violation("family:far-sites:exception", f"sites {sites_}: {ex!r}", {"sites": sites_})
    for m in meta:
        if "exc" in m:
            ctx.violation(f"run:exception:{m['input']}", f"{m}", m)
        elif m.get("groups", 0) >= 1:
            ctx.nontriv(json.dumps(m))
    if frecs:
        for inv, ms in sorted(pc.validate(ctx, frecs, fmeta, ["Axioms", "SumOfGroups"]).items()):
            for m in ms[:2]:
                ctx.violation(f"trace:{inv}:far-sites", f"{inv} violated on {m}", m)
    viol = pc.validate(ctx, recs, meta, pc.C09_INV, pc.C09_DIAG)
    for inv, ms in sorted(viol.items()):
        if inv in pc.C09_DIAG:
            ctx.note(f"MODEL-DRIFT: {inv} not followed on {len(ms)} runs (mechanism differs; verdict is the bracket)")
            continue
        if inv == "ChargeRows":
            # the printed charge table: reported when it fails although the computed grid is right (ChargeGrid otherwise)
            ms = [m for m in ms if m not in viol.get("ChargeGrid", [])]
        # (ChargeGrid - a charge is reported at each pH of the requested grid, end points included - is a clause of C09's
        # statement as well as of C10's)
        for m in ms[:3]:
            ctx.violation(f"trace:{inv}:{m['input']}", f"{inv} violated on {m}", m)
    ctx.sample({"run": meta[0]})


def replay(ctx, path):
    case = json.load(open(path))
    print(case["what"])
    p = case["payload"]
    if "sites" in p:
        mol = pc.set_sites(pc.tiny_mol(), p["sites"])
        print("profile:", mol.get_charge_profile(conformation="AVR", grid=(3.0, 7.0, 1.0)))
        print("pI (folded, unfolded):", mol.get_pi(conformation="AVR"))
