"""C01 - every ionizable group exactly once with the right model pKa.
Spec: tla/PdbReader.tla (terminus tagging: mechanism vs declaration), tla/Trace_Run.tla (DeclCensus).

M  MC_PdbReader: all well-formed record sequences up to a bound, mechanism tags = declared tags.
G  TLC-emitted sequences (exhaustive to length 2-4, simulated to 14) replayed through the real
   get_atom_lines_from_pdb.
T  full runs over the test structures, fragments and constructed label/terminus layouts x chain selection
   x titrate-only: TLC computes DeclCensus from the residue-level input and compares it with every
   conformation, the average and the summary rows; ligand/ion model pKa and charge against the cfg tables.
"""
import json

from .. import corpus, runbank, tlc
from . import c01_reader

C = corpus


def constructed_cases(ctx):
    cases = []
    a = C.chain_lines("1HPX", "A", 0, 6)
    b = C.chain_lines("1HPX", "B", 0, 6)
    no_oxt = lambda ls: C.drop(ls, lambda ln: ln[12:16].strip() == "OXT")  # noqa
    # two chains, no TER, no OXT: by the statement only the first residue of the model is a chain start
    cases.append(("two-chains-no-TER", C.join(no_oxt(a) + no_oxt(b)), []))
    cases.append(("two-chains-TER", C.join(no_oxt(a) + [C.TER] + no_oxt(b)), []))
    # full short chains with their own terminal oxygen: build OXT by renaming the last O? use real C-termini instead
    last = C.chain_lines("1HPX", "A", 93, 6)
    cases.append(("cterm-then-chain", C.join(last + b), []))
    # OXT not the last atom of its residue
    oxt = [ln for ln in last if ln[12:16].strip() == "OXT"]
    rest = [ln for ln in last if ln[12:16].strip() != "OXT"]
    if oxt:
        k = max(i for i, ln in enumerate(rest) if C.resid(ln) == C.resid(oxt[0]))
        moved = rest[:k - 2] + oxt + rest[k - 2:]
        cases.append(("OXT-not-last", C.join(moved + b), []))
    # negative residue numbers, blank chain id
    cases.append(("negative-numbers", C.join(C.shift_numbers(a, -30) + [C.TER]), []))
    cases.append(("blank-chain", C.join(C.rename_chain(a, "A", " ") + [C.TER]), []))
    # insertion-coded twins at a chain start, interior, and both chains starting at the same number
    ids = []
    for ln in a:
        if C.resid(ln) not in ids:
            ids.append(C.resid(ln))
    tw_start = C.relabel_residues(a, {ids[1]: (ids[0][0], ids[0][1], "A")})
    cases.append(("twins-at-start", C.join(tw_start + [C.TER]), []))
    tw_mid = C.relabel_residues(a, {ids[3]: (ids[2][0], ids[2][1], "A")})
    cases.append(("twins-interior", C.join(tw_mid + [C.TER]), []))
    cases.append(("same-start-number-no-TER", C.join(no_oxt(a) + no_oxt(C.shift_numbers(b, 0))), ["-c", "A", "-c", "B"]))
    # insertion-coded twins of the SAME ionizable type (GLU 97 / GLU 97A): two sites, two rows
    pairs = C.adjacent_same_type()
    for k, (src, lines, a1, a2) in enumerate(pairs if ctx.thorough() else pairs[1:4]):
        cases.append((f"same-type-twins-{src}-{a1[1]}", C.join(C.make_twins(lines, a1, a2) + [C.TER]), []))
    # titrating residues at chain starts: first residue Asp / His / Cys (covalently coupled N+ / side chain)
    e = C.chain_lines("3SGB", "I", 0, 10)
    cases.append(("nterm-asp", C.join(e + [C.TER]), []))
    # hetero amino acid: a HETATM aspartate is not a protein site
    asp = [r for r in ids]
    f = C.chain_lines("1HPX", "A", 20, 10)
    het = C.to_hetatm(f, lambda ln: ln[17:20] == "ASP")
    cases.append(("hetatm-asp", C.join(het + [C.TER]), []))
    # incomplete residues: side-chain defining atoms removed / backbone N of the first residue removed
    cases.append(("no-CG-on-asp", C.join(C.drop(f, lambda ln: ln[17:20] == "ASP" and ln[12:16].strip() == "CG") + [C.TER]), []))
    cases.append(("no-first-N", C.join(f[1:] + [C.TER]), []))
    # defining atom present, interaction atoms absent: the site must still be reported
    from . import c12
    wins = c12.find_windows(ctx)
    kills = {"ASP": ("OD1", "OD2"), "GLU": ("OE1", "OE2"), "HIS": ("CE1",), "ARG": ("NE", "NH1", "NH2"), "TYR": ("CZ",),
             "LYS": ("CE",), "CYS": ("CB",)}
    for resn, names in kills.items():
        if resn in wins:
            src, wl, key = wins[resn]
            new = [ln for ln in wl if not (C.is_atom(ln) and (ln[21], ln[22:26], ln[26], ln[17:20]) == key
                                           and ln[12:16].strip() in names)]
            cases.append((f"no-interaction-atoms-{resn}", C.join(new + [C.TER]), []))
    cases.append(("cterm-without-C", C.join([ln for ln in last if not (ln[12:16].strip() == "C" and oxt and
                                                                     C.resid(ln) == C.resid(oxt[0]))] + [C.TER]), []))
    # a disulfide bridge parallel to a coordinate axis, pushed along it in 0.01 A steps (bridged cysteines are 99.99
    # wherever the two sulfurs lie relative to the bond search grid)
    axes = (0, 1, 2) if ctx.thorough() else (ctx.seed % 3,)
    for ax in axes:
        for off, ls in C.disulfide_slides(ax, step=10 if ctx.thorough() else 13, span=2600, start=ctx.seed % 7):
            cases.append((f"disulfide-along-{'xyz'[ax]}+{off}", C.join(ls), []))
    # bridged cysteines that share a residue number (symmetric inter-chain bridge of a homodimer; residues n / nA)
    pair, _p, _q = C.disulfide_pair()
    same = [C.set_resid(ln, num=42) if C.is_atom(ln) else ln for ln in pair]
    cases.append(("disulfide-same-number-E42-F42", C.join(same), []))
    twin = [C.set_resid(ln, chain="E", num=42, icode=("A" if ln[21] == "F" else " ")) if C.is_atom(ln) else ln for ln in pair]
    cases.append(("disulfide-twins-E42-E42A", C.join(twin), []))
    # alternate locations together with a titrate-only list: the listed residues are reported in every conformation
    from . import c14
    frs = dict(c14.fragments(ctx))
    if "frag-1HPX-A20+7+altlocs" in frs:
        al = frs["frag-1HPX-A20+7+altlocs"]
        rids = []
        for ln in al:
            if C.is_atom(ln) and C.resid(ln) not in rids:
                rids.append(C.resid(ln))
        cases.append(("altlocs -i some", C.join(al), ["-i", ",".join(f"{r[0]}:{r[1]}" for r in rids[::2])]))
        cases.append(("altlocs -i all", C.join(al), ["-i", ",".join(f"{r[0]}:{r[1]}" for r in rids)]))
    # chain selection and titrate-only on a two-chain construct
    two = no_oxt(a) + [C.TER] + no_oxt(b)
    cases.append(("two-chains -c B", C.join(two), ["-c", "B"]))
    ra = ids[0]
    cases.append(("two-chains -i", C.join(two), ["-i", "A:%d,B:%d,A:999" % (ids[0][1], ids[1][1])]))
    # every ion of the shipped table, 6 A from the fragment's first titratable atom
    _, cfgt = runbank.cfg_record()
    base = C.chain_lines("1HPX", "A", 20, 10)
    cx, cy, cz = C.centroid(base)
    ions = sorted(cfgt["ions"])
    if not ctx.thorough():
        # a third of the table per run, and always the ions whose atom name is not their residue name
        ions = sorted(set(ions[ctx.seed % 3::3]) | {i for i in ions if i in C.ION_ATOM_NAMES})
    for k, ion in enumerate(ions):
        cases.append((f"ion-{ion}", C.join(base + [C.TER, C.ion_line(ion, (cx + 9000, cy + 1000 * (k % 3), cz))]), []))
    return cases


def run(ctx):
    ctx.rule = ("cases = reader record sequences (TLC-emitted) and full runs (structure x options); non-trivial = "
                "sequence with >= 2 records, run with >= 1 reported group")
    ctx.assumptions += ["census decided on single-conformation inputs (C08 covers multi-conformation completion)",
                        "chain starts counted over ATOM records; TER written padded"]
    # ---- M -------------------------------------------------------------------------------
    if ctx.thorough():
        c01_reader.model_check(ctx, [("MC_PdbReader.cfg", "reader: termini, sequences <= 5"),
                                     ("MC_PdbReader_rich.cfg", "reader: models, alt-locs, hetero, ignorable, chains, <= 4"),
                                     ("MC_PdbReader_mut.cfg", "reader: alt-loc point mutants, <= 5")])
        # self-tests: mechanisms with a narrower / wider residue key must be refuted by TLC
        for cfg in ("MC_PdbReader_num.cfg", "MC_PdbReader_named.cfg"):
            r = tlc.run("MC_PdbReader", cfg, timeout=3000)
            ctx.extra.setdefault("selftests_refuted", {})[cfg] = (r.invariant_violated == "Agree")
            if r.invariant_violated != "Agree":
                raise tlc.TLCError(f"self-test {cfg}: a mechanism with the wrong residue key was not refuted")
    else:
        c01_reader.model_check(ctx, [("MC_PdbReader_q.cfg", "reader: termini, sequences <= 4"),
                                     ("MC_PdbReader_rich3.cfg", "reader: models, alt-locs, hetero, ignorable, chains, <= 3")])
    # ---- G -------------------------------------------------------------------------------
    gens = [("Gen_PdbReader_term3.cfg", "emit termini <= 3", None), ("Gen_PdbReader2.cfg", "emit rich <= 2", None),
            ("Gen_PdbReader_mut.cfg" if ctx.thorough() else "Gen_PdbReader_mut3.cfg", "emit alt-loc point mutants", None),
            ("Gen_PdbReader_sim.cfg", "simulated rich sequences <= 14", "num=%d" % (30 if not ctx.thorough() else 600))]
    if ctx.thorough():
        gens = [("Gen_PdbReader_term.cfg", "emit termini <= 4", None), ("Gen_PdbReader.cfg", "emit rich <= 3", None)] + gens[2:]
    bad = c01_reader.replay(ctx, gens)
    for k, (seq, chains, exp, got, text) in sorted(bad.items()):
        ctx.violation(k, f"reader on\n{text}chains={chains}: expected {exp}, got {got}",
                      {"pdb": text, "chains": chains, "expected": exp})
    # ---- T -------------------------------------------------------------------------------
    cases = runbank.base_cases(ctx) + constructed_cases(ctx) + runbank.kit_cases(ctx, every=1 if ctx.thorough() else 9)
    recs, metas, _ = runbank.run_and_record(ctx, cases)
    for m, (name, text, optargs) in zip(metas, [(c[0], c[1], c[2]) for c in cases]):
        if "exc" in m:
            ctx.violation(f"run:exception:{m['input']}", f"{m}", {"pdb": text, "optargs": optargs})
        elif m.get("groups", 0) >= 1:
            ctx.nontriv((m["input"], tuple(optargs)))
    # the synthetic ligands: the group types recognised on each molecule are the declared ones (pkv/ligandkit.py)
    from .. import ligandkit as K
    for rec, (cname, ctext, _o) in zip(recs, [(c[0], c[1], c[2]) for c in cases]):
        if rec is None or not cname.startswith("kit-"):
            continue
        mol_name = cname[4:].split("@")[0]
        resn = K.molecules()[mol_name][0]
        tl = ctext.splitlines()
        # the declaration is about the molecule itself: a placement that brings one of its atoms within bonding distance
        # (2.5 A is the largest criterion) of the fragment next to it is not judged
        from .. import pdbio as _pd
        ka = [_pd.parse_line(ln) for ln in tl if C.is_atom(ln) and ln[17:20].strip() == resn]
        oa = [_pd.parse_line(ln) for ln in tl if C.is_atom(ln) and ln[17:20].strip() != resn]
        if any((a_.x - b_.x) ** 2 + (a_.y - b_.y) ** 2 + (a_.z - b_.z) ** 2 < 2600 ** 2 for a_ in ka for b_ in oa):
            ctx.extra["kit_placements_in_contact_not_judged"] = ctx.extra.get("kit_placements_in_contact_not_judged", 0) + 1
            continue
        c0 = rec["confs"][0]
        got = sorted([g["type"] for g in rec["G"][c0] if g.get("resn", "").strip() == resn] +
                     [o[1] for o in (rec.get("_others") or {}).get(c0, []) if 0 <= o[0] < len(tl) and tl[o[0]][17:20].strip() == resn])
        if got != sorted(K.expected_types(mol_name)):
            ctx.violation(f"kit:ligand-group-types:{mol_name}", f"{cname}: groups recognised on {resn}: {got}, declared {sorted(K.expected_types(mol_name))}",
                          {"pdb": ctext, "optargs": []})
    # ... and every molecule of the kit on its own (no fragment next to it): all of them, whatever the seed selects above
    from .. import runner as _runner
    for mol_name in sorted(K.molecules()):
        resn = K.molecules()[mol_name][0]
        mtext = C.join(K.lines(mol_name, (20000, 20000, 20000)))
        rk = _runner.run(mtext, ["-q"], write=False)
        ctx.count()
        if rk.exc is not None:
            ctx.violation(f"kit:alone:exception:{mol_name}", f"{mol_name} alone: {rk.exc!r}", {"pdb": mtext, "optargs": []})
            continue
        conf0 = rk.mol.conformations[rk.mol.conformation_names[0]]
        got = sorted(g.type for g in conf0.groups if g.atom.res_name.strip() == resn)
        if got != sorted(K.expected_types(mol_name)):
            ctx.violation(f"kit:ligand-group-types:{mol_name}", f"{mol_name} alone: groups recognised on {resn}: {got}, "
                          f"declared {sorted(K.expected_types(mol_name))}", {"pdb": mtext, "optargs": []})
    viol = runbank.validate(ctx, recs, metas, runbank.RUN_INV["C01"])
    texts = {c[0]: (c[1], c[2]) for c in cases}
    for inv, lst in sorted(viol.items()):
        for rec, m in lst:
            if inv == "C01_SummaryPenalisedToo":
                pens = sorted(g["label"] for g in rec["G"]["AVR"] if g["use"] and g["pen"] != -1)
                ctx.violation("summary:omits-penalised-group", f"{m['input']}: reported groups {pens} are in neither the "
                              f"determinant table nor the summary (penalised member of a covalently coupled pair)",
                              {"pdb": texts[m["input"]][0], "optargs": m["optargs"], "labels": pens})
            else:
                ctx.violation(f"run:{inv}:{m['input']}", f"{inv} violated on {m}",
                              {"pdb": texts[m["input"]][0], "optargs": m["optargs"]})
    ctx.sample({"run": metas[0], "reported_groups": metas[0].get("groups")})
    ctx.extra["runs"] = len(cases)


def replay(ctx, path):
    from .. import runner, readerreplay as rr
    case = json.load(open(path))
    print(case["what"])
    p = case["payload"]
    if "chains" in p:
        got = rr.real_out(p["pdb"], len(p["pdb"].splitlines()), set(p["chains"]), False, c01_reader.ignore_list())
        print("real reader:", got)
    elif "pdb" in p:
        r = runner.run(p["pdb"], ["-q"] + list(p.get("optargs", [])))
        print("exception:", r.exc)
        if r.mol:
            for g in r.mol.conformations["AVR"].groups:
                print(g.label, round(g.pka_value, 2), g.model_pka)
