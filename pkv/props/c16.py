"""C16 - every contribution has the physically required sign and stays in model bounds.
Spec: tla/SignTable.tla (Coulomb sign table: mechanism vs statement), tla/Trace_Run.tla (C16_* invariants:
      desolvation, backbone, Coulomb sign and bound, side-chain bound, buried fraction, acid-base pairs).

M  MC_SignTable: for all charge/model-pKa combinations the code's assignment rule satisfies the statement's
   sign rule, acid-base pairs are equal and opposite, like-charge pairs shift exactly one member; ions.
G  every emitted case through the real add_coulomb_determinants / set_ion_determinants with a stubbed
   interaction magnitude; every pair of titratable group types of the working tree's parameter file through
   the real set_determinants (non-iterative and iterative path as the interaction matrix decides).
T  the C16 invariants on every group of every corpus run: test structures, every ion type next to acids and
   bases, acid-acid and base-base constructs.
"""
import json

from .. import corpus, runbank, runner, tlc, pdbio, observe
from . import c05

C = corpus
NONE = -999


def stub_version():
    from propka.parameters import Parameters
    from propka.input import read_parameter_file
    from propka.version import VersionA
    with runner.quiet():
        return VersionA(read_parameter_file("propka.cfg", Parameters()))


def dets_towards(g, other, kind="coulomb"):
    return [d.value for d in g.determinants[kind] if getattr(d.group, "group", d.group) is other]


class StubConf:
    def __init__(self, titr, ions):
        self._t, self._i = titr, ions

    def get_titratable_groups(self):
        return self._t

    def get_ions(self):
        return self._i


def sign_ok(vals, qpartner):
    return all((v == 0) or ((v > 0) == (qpartner < 0)) for v in vals)


def ion_constructs(ctx, cfgt):
    """Every configured ion 4-7 A from a carboxylate, a histidine and a lysine of a fragment."""
    out = []
    base = C.chain_lines("1HPX", "A", 40, 30)       # contains Lys43/45, Asp60, His69 ...
    anchors = []
    for ln in base:
        if C.is_atom(ln) and (ln[17:20], ln[12:16].strip()) in (("ASP", "CG"), ("LYS", "NZ"), ("HIS", "CG"), ("GLU", "CD")):
            r = pdbio.parse_line(ln)
            anchors.append((ln[17:20], (r.x, r.y, r.z)))
    cx, cy, cz = C.centroid(base)
    ions = sorted(cfgt["ions"])
    if not ctx.thorough():
        ions = ions[ctx.seed % 2::2]
    for k, ion in enumerate(ions):
        extra = []
        for j, (resn, (x, y, z)) in enumerate(anchors[:4]):
            # push the ion outwards from the centroid by ~5 A
            v = (x - cx, y - cy, z - cz)
            n = max(1.0, sum(c * c for c in v) ** 0.5)
            p = tuple(int(c0 + 5000 * c / n) + 37 * (k + 1) for c0, c in zip((x, y, z), v))
            extra.append(C.ion_line(ion, p, chain="X", num=900 + j, serial=9000 + j))
        out.append((f"ions-{ion}", C.join(base + [C.TER] + extra), []))
    return out


def twin_ion_constructs(ctx):
    """Two ions of the same name in one chain (same printed label) in free spots next to the most buried titratable
    groups of a real structure: each ion's determinant must respect the bound for ONE ion."""
    out = []
    for src in (["1FTJ-Chain-A"] if not ctx.thorough() else ["1FTJ-Chain-A", "3SGB", "1HPX"]):
        lines = [ln for ln in C.body(C.test_pdb_text(src)) if C.is_atom(ln) or ln.startswith("TER")]
        for k, (n, xyz, lab) in enumerate(C.buried_anchors(lines, top=3 if ctx.thorough() else 2)):
            spots = C.free_spots(lines, xyz, count=2)
            if len(spots) < 2:
                continue
            for ion in (["NA", "ZN"] if ctx.thorough() else ["NA"]):
                extra = [C.ion_line(ion, spots[0], chain="A", num=901, serial=9001), C.ion_line(ion, spots[1], chain="A", num=902, serial=9002)]
                out.append((f"{src}+2x{ion}@{lab}", C.join(lines + extra), []))
    return out


def like_charge_constructs(ctx):
    """Two copies of a fragment facing each other: acid-acid and base-base pairs at short range."""
    out = []
    a = C.chain_lines("1HPX", "A", 22, 6)          # Asp25 region
    b = C.chain_lines("1HPX", "B", 22, 6)
    out.append(("asp-asp", C.join(a + [C.TER] + b + [C.TER]), []))
    k = C.chain_lines("1HPX", "A", 40, 8)          # Lys43/Lys45
    k2 = C.rename_chain(C.translate(k, 0, 0, 0), "A", "C")
    # mirror copy shifted by 6 A along x: lysines of the two copies come close
    k2 = C.translate(k2, 6000, 1000, -500)
    out.append(("lys-lys", C.join(k + [C.TER] + k2 + [C.TER]), []))
    # two lysines whose NZ atoms are 3.2 A apart (hydrogen-bonded base-base pair, scored iteratively): the copy is the
    # fragment turned by 180 degrees about an axis through the midpoint, chosen so that nothing else clashes
    from .. import pdbio
    for resn, atom in (("LYS", "NZ"),):
        tips = [pdbio.parse_line(ln) for ln in k if C.is_atom(ln) and ln[17:20] == resn and ln[12:16].strip() == atom]
        done = False
        for tip in tips:
            for ax in range(3):
                for sgn in (1, -1):
                    for wax in [a_ for a_ in range(3) if a_ != ax]:
                        m = [tip.x, tip.y, tip.z]
                        m[ax] += sgn * 1600
                        cp = []
                        for ln in k:
                            if not C.is_atom(ln):
                                continue
                            r = pdbio.parse_line(ln)
                            q = [r.x, r.y, r.z]
                            new_ = [2 * m[i] - q[i] for i in range(3)]
                            new_[wax] = q[wax]          # 180 degrees about the axis along `wax` through m
                            cp.append(pdbio.set_xyz(C.set_resid(ln, chain="C"), *new_))
                        pts = [(pdbio.parse_line(x), x) for x in k if C.is_atom(x)]
                        clash = False
                        for y in cp:
                            ry = pdbio.parse_line(y)
                            for rx, x in pts:
                                d2 = (rx.x - ry.x) ** 2 + (rx.y - ry.y) ** 2 + (rx.z - ry.z) ** 2
                                if d2 < 3000 ** 2 and not (x[12:16].strip() == atom and y[12:16].strip() == atom and d2 >= 3100 ** 2):
                                    clash = True
                                    break
                            if clash:
                                break
                        if not clash and not done:
                            out.append((f"{resn.lower()}-{resn.lower()}-hbonded-3.2A", C.join(k + [C.TER] + cp + [C.TER]), []))
                            done = True
    return out


def run(ctx):
    import propka.determinants as pd
    ctx.rule = ("cases = sign-table cases (TLC-emitted), pairs of titratable types of the parameter file, and group records of "
                "corpus runs; non-trivial = case with a non-zero determinant; run with >= 1 Coulomb or ion determinant")
    r = tlc.run("MC_SignTable", "MC_SignTable.cfg", timeout=600)
    ctx.add_tlc(r, "Coulomb sign table: mechanism satisfies the statement")
    if not r.ok:
        raise tlc.TLCError("spec-level failure in MC_SignTable:\n" + r.stdout[-3000:])
    r = tlc.run("MC_SignTable", "Gen_SignTable.cfg", workers=1, timeout=600)
    ctx.add_tlc(r, "sign-table case generator")
    version = stub_version()
    bad = {}
    for c in r.printed:
        mag = c["v"] / 10.0
        version.electrostatic_interaction_model = lambda g1, g2, d, v, mag=mag: mag
        version.coulomb_interaction_model = lambda d, w, p, mag=mag: mag
        g = c05.stub_groups(3)
        g[0].charge, g[0].model_pka = float(c["q1"]), c["m1"] / 10.0
        g[1].charge, g[1].model_pka = float(c["q2"]), c["m2"] / 10.0
        ctx.count()
        ctx.nontriv(json.dumps(c))
        try:
            pd.add_coulomb_determinants(g[0], g[1], 5.0, version)
            got = []
            for a, b in ((g[0], g[1]), (g[1], g[0])):
                vs = dets_towards(a, b)
                got.append(NONE if not vs else round(sum(vs) * 10))
            ion = g[2]
            ion.charge = float(c["qi"])
            ion.num_volume = 0
            g[0].num_volume = 0
            g[0].determinants = {"sidechain": [], "backbone": [], "coulomb": []}
            pd.set_ion_determinants(StubConf([g[0]], [ion]), version)
            iv = dets_towards(g[0], ion)
            gotion = round(sum(iv) * 10) if iv else NONE
        except Exception as ex:  # noqa
            bad.setdefault("stub:exception", (c, repr(ex)))
            continue
        if got != list(c["d"]):
            kind = "acid-acid" if c["q1"] < 0 and c["q2"] < 0 else "base-base" if c["q1"] > 0 and c["q2"] > 0 else "acid-base"
            bad.setdefault(f"stub:coulomb-pair:{kind}", (c, f"determinants {got}, sign table {c['d']}"))
        if gotion != c["ion"]:
            bad.setdefault(f"stub:ion:{'cation' if c['qi'] > 0 else 'anion'}", (c, f"ion determinant {gotion}, sign table {c['ion']}"))
    ctx.traces += 1
    # every pair of titratable types of the parameter file through set_determinants
    cfgt = observe.cfg_tables()
    acid_types = {"ASP": "COO", "GLU": "COO", "C-": "COO"}
    types = []
    for rt, pk in cfgt["model_pkas"].items():
        gt = {"ASP": "COO", "GLU": "COO", "C-": "COO", "HIS": "HIS", "CYS": "CYS", "TYR": "TYR", "LYS": "LYS", "ARG": "ARG",
              "N+": "N+"}.get(rt, rt)
        q = cfgt["charge"].get(gt, 0.0)
        if q:
            types.append((rt, gt, q, pk))
    mag = 0.4
    version.electrostatic_interaction_model = lambda g1, g2, d, v: mag
    version.hydrogen_bond_interaction_model = lambda g1, g2, v: 0.0
    npairs = 0
    for (rt1, gt1, qa, pa) in types:
        for (rt2, gt2, qb, pb) in types:
            g = c05.stub_groups(2)
            for gg, (rt, gt, q, pk), x in ((g[0], (rt1, gt1, qa, pa), 0.0), (g[1], (rt2, gt2, qb, pb), 5.0)):
                gg.type, gg.residue_type, gg.charge, gg.model_pka = gt, rt, q, pk
                gg.x, gg.y, gg.z = x, 0.0, 0.0
                gg.titratable = True
            g[1].label = "ASP  99 B"
            ctx.count()
            npairs += 1
            try:
                pd.set_determinants([g[0], g[1]], version=version)
            except Exception as ex:  # noqa
                bad.setdefault(f"types:exception:{gt1}-{gt2}", ({"t1": rt1, "t2": rt2}, repr(ex)))
                continue
            d01, d10 = dets_towards(g[0], g[1]), dets_towards(g[1], g[0])
            if not sign_ok(d01, qb) or not sign_ok(d10, qa):
                bad.setdefault(f"types:coulomb-sign:{gt1}-{gt2}", ({"t1": rt1, "t2": rt2}, f"{rt1}<-{rt2}: {d01}; {rt2}<-{rt1}: {d10}"))
            itype = version.parameters.interaction_matrix.get_value(gt1, gt2)
            if qa * qb < 0 and itype == "N" and not (len(d01) == 1 and len(d10) == 1 and abs(d01[0] + d10[0]) < 1e-12):
                bad.setdefault(f"types:acid-base-not-opposite:{gt1}-{gt2}", ({"t1": rt1, "t2": rt2}, f"{d01} vs {d10}"))
    ctx.extra["type_pairs_through_set_determinants"] = npairs
    for k, (c, msg) in sorted(bad.items()):
        ctx.violation(k, f"{c}: {msg}", {"case": c})
    # ---- T -----------------------------------------------------------------------------
    coupled_starts = []
    for src, resn in (("1FTJ-Chain-A", "CYS"), ("1HPX", "CYS"), ("3SGB", "ASP"), ("1HPX", "HIS")):
        blocks = [b for b in C.residue_blocks(C.atom_lines(src)) if b[0] != "TER" and b[1][0].startswith("ATOM")]
        blocks = [b for b in blocks if b[0][0] == blocks[0][0][0]]
        ks = [k for k, b in enumerate(blocks) if b[0][3] == resn and 0 < k < len(blocks) - 20]
        for k in ks[:1 if not ctx.thorough() else 3]:
            coupled_starts.append((f"{src}-from-{resn}{blocks[k][0][1].strip()}",
                                   C.join([ln for b in blocks[k:(None if resn in ("CYS", "ASP") else k + 45)] for ln in b[1] if ln[16] in " A"] + [C.TER]), []))
    # a free cysteine hydrogen-bonded to the buried catalytic histidine (point mutation S195C of 3SGB: OG becomes SG)
    s195c = []
    for ln in C.body(C.test_pdb_text("3SGB")):
        if C.is_atom(ln) and ln[21] == "E" and ln[17:20] == "SER" and int(ln[22:26]) == 195:
            ln = ln[:17] + "CYS" + ln[20:]
            if ln[12:16].strip() == "OG":
                ln = ln[:12] + " SG " + ln[16:76] + " S" + ln[78:]
        s195c.append(ln)
    coupled_starts.append(("3SGB-S195C", C.join(s195c), []))
    # an alt-loc point mutant whose variant A holds a base with acid partners (ARG E 138 of 3SGB; variant B is ALA): the
    # pair exists in one conformation only, and there its two Coulomb determinants are equal and opposite all the same
    mut = []
    for ln in C.body(C.test_pdb_text("3SGB")):
        if C.is_atom(ln) and ln[21] == "E" and ln[17:20] == "ARG" and int(ln[22:26]) == 138 and ln[26] == " ":
            mut.append(ln[:16] + "A" + ln[17:])
        else:
            if mut and C.is_atom(mut[-1]) and mut[-1][17:20] == "ARG" and mut[-1][21] == "E" and int(mut[-1][22:26]) == 138 and \
                    not (C.is_atom(ln) and ln[21] == "E" and int(ln[22:26]) == 138 and ln[26] == " "):
                arg = [x for x in mut if C.is_atom(x) and x[17:20] == "ARG" and x[21] == "E" and int(x[22:26]) == 138]
                mut += [x[:16] + "B" + "ALA" + x[20:] for x in arg if x[12:16].strip() in ("N", "CA", "C", "O", "CB")]
            mut.append(ln)
    # the dimer with its C-terminal oxygens under the names OT1 / OT2 (the C-termini of 1HPX sit next to the other chain's
    # N-terminus and a histidine: whatever is reported for them pairs up like any acid-base pair)
    hp = C.body(C.test_pdb_text("1HPX"))
    lastres = {}
    for ln in hp:
        if C.is_atom(ln) and ln[:4] == "ATOM":
            lastres[ln[21]] = C.resid(ln)
    otl = []
    for ln in hp:
        if C.is_atom(ln) and ln[:4] == "ATOM" and C.resid(ln) == lastres[ln[21]] and ln[12:16].strip() in ("O", "OXT"):
            ln = ln[:12] + (" OT1" if ln[12:16].strip() == "O" else " OT2") + ln[16:]
        otl.append(ln)
    cases = runbank.base_cases(ctx) + [("3SGB-altloc-mutant-E138-ARG/ALA", C.join(mut), []), ("1HPX OT1/OT2", C.join(otl), [])] + coupled_starts + ion_constructs(ctx, cfgt) + twin_ion_constructs(ctx) + like_charge_constructs(ctx) + runbank.kit_cases(ctx, every=1 if ctx.thorough() else 5)
    # parameter files that change the desolvation model but none of the configured bounds
    from . import c02
    variants = {"allow005": {"desolvationAllowance": 0.05}, "allow015": {"desolvationAllowance": 0.15},
                "allow040": {"desolvationAllowance": 0.40}, "nmin": {"Nmin": 200, "Nmax": 400},
                "prefactor": {"desolvationPrefactor": -10.0, "desolvationSurfaceScalingFactor": 0.5}}
    for tag, ov in variants.items():
        pf = c02.param_file(ov, "c16_" + tag)
        for n in (["1HPX"] if not ctx.thorough() else ["1HPX", "1FTJ-Chain-A", "3SGB"]):
            cases.append((f"{n} [{tag}]", C.test_pdb_text(n), ["-p", pf]))
        cases.append((f"frag-1HPX-A40+30 [{tag}]", C.join(C.chain_lines("1HPX", "A", 40, 30) + [C.TER]), ["-p", pf]))
    # the optional settings of covalent coupling (determinants shared inside a coupled system, penalised groups kept) on
    # structures that have such systems: methotrexate ring nitrogens of 4DFR, chains starting at ASP / HIS / CYS
    for tag in (("shared", "shared+keep") if not ctx.thorough() else ("shared", "shared+keep", "keep-penalised", "ccc+shared+keep")):
        ov, keeppen = c02.PARAMS[tag]
        pf = c02.param_file(ov, "c16_" + tag)
        cases.append((f"4DFR [{tag}]", C.test_pdb_text("4DFR"), ["-p", pf], {"keeppen": keeppen}))
        for cs_ in coupled_starts[:-1][:(None if ctx.thorough() else 3)]:
            cases.append((f"{cs_[0]} [{tag}]", cs_[1], ["-p", pf], {"keeppen": keeppen}))
    recs, metas, _ = runbank.run_and_record(ctx, cases)
    texts = {c[0]: c for c in cases}
    ndet = 0
    for rec, m in zip(recs, metas):
        if "exc" in m:
            ctx.violation(f"run:exception:{m['input']}", f"{m}", {"pdb": texts[m["input"]][1]})
        elif rec:
            k = sum(len(g["cb"]) for c in rec["confs"] for g in rec["G"][c])
            nion = sum(1 for c in rec["confs"] for g in rec["G"][c] for d in g["cb"] if d[3] == "ION")
            m["coulomb_dets"], m["ion_dets"] = k, nion
            ndet += k
            if k:
                ctx.nontriv((m["input"], tuple(m["optargs"])))
    ctx.extra["coulomb_determinants_checked"] = ndet
    ctx.extra["ion_determinants_checked"] = sum(m.get("ion_dets", 0) for m in metas)
    # shared_determinants 1 overwrites, inside a coupled system, every member's determinant from a partner with the largest
    # one: that is what the setting is for, and it leaves the signs and the bounds intact but not the "equal and opposite"
    # clause (which the statement makes about the model as configured by default), so that clause is not asked of these runs;
    # nor is the backbone sign clause: an amino terminus that shares the backbone term of its own residue's carboxylate gets
    # it with the acid's sign
    sh = [("[shared" in m["input"] or "+shared" in m["input"]) for m in metas]
    viol = runbank.validate(ctx, [r for r, s_ in zip(recs, sh) if not s_], [m for m, s_ in zip(metas, sh) if not s_],
                            runbank.RUN_INV["C16"])
    if any(sh):
        v2 = runbank.validate(ctx, [r for r, s_ in zip(recs, sh) if s_], [m for m, s_ in zip(metas, sh) if s_],
                              [i for i in runbank.RUN_INV["C16"] if i not in ("C16_AcidBasePair", "C16_Backbone")],
                              label="runs with shared determinants")
        for inv, lst in v2.items():
            viol.setdefault(inv, []).extend(lst)
    for inv, lst in sorted(viol.items()):
        for rec, m in lst:
            ctx.violation(f"run:{inv}:{m['input']}", f"{inv} violated on {m}", {"pdb": texts[m["input"]][1], "optargs": m["optargs"]})
    ctx.sample({"runs": [m for m in metas if m.get("ion_dets")][:3]})
    # the bound at the level of one interaction (tla/Energy.tla): 0 <= value <= configured maximum for every distance,
    # angle factor and dielectric weight on grids around the break points
    from .. import energyfn
    for key_, msg_, payload_ in energyfn.run(ctx, ("bound",), ctx.thorough()):
        ctx.violation(key_, msg_, payload_)


def replay(ctx, path):
    case = json.load(open(path))
    print(case["what"])
