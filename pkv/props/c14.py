"""C14 - titrate_only restricts titration exactly to the listed residues.
Spec: tla/TitrateOnly.tla (parser grammar; filter laws), tla/Trace_Run.tla (DeclCensus with ListedRes),
      tla/Trace_Rel.tla (EnvKept, SameAll).

M  MC_TitrateOnly: parser mechanism (two-stage int) = grammar on all entry shapes; filter laws (all listed =
   no option; entries naming no residue have no effect; reported set only shrinks).
G  every emitted entry string through the real parse_res_string.
T  for fragments with twins, two chains and a bridged-free cysteine: all subsets of residues as -i lists:
   TLC checks the reported census (matched on chain, number, insertion code), that every listed group keeps its
   desolvation / buried / backbone terms and every group is still present (EnvKept), all-listed = no option,
   unknown entries ignored.
"""
import itertools
import json
import random

from .. import corpus, relations, runner, runbank, tlc

C = corpus


def entry_string(e):
    num = str(e["num"]) if e["digits"] else ""
    body = ("-" if e["neg"] else "") + num + e["tail"]
    if e["colons"] == 1:
        return f"{e['chain']}:{body}"
    if e["colons"] == 0:
        return f"{e['chain']}{body}"
    return f"{e['chain']}:{body}:"


def res_entry(rid):
    ch, num, ic = rid
    return f"{ch}:{num}{ic.strip()}"


ION_SINGLES = {"ionpair-3SGB": [("I", 11, " "), ("I", 13, " "), ("E", 57, " "), ("E", 102, " ")],
               "ionpair-1FTJ": [("A", 42, " "), ("A", 46, " ")],
               "ionpair-4DFR": [("B", 139, " "), ("B", 141, " "), ("A", 27, " "), ("B", 27, " ")]}


def fragments(ctx):
    out = []
    a = C.chain_lines("1HPX", "A", 20, 7)
    ids = []
    for ln in a:
        if C.resid(ln) not in ids:
            ids.append(C.resid(ln))
    out.append(("frag-1HPX-A20+7", a + [C.TER]))
    tw = C.relabel_residues(a, {ids[5]: (ids[4][0], ids[4][1], "A")})
    out.append(("frag-twins", tw + [C.TER]))
    e = C.chain_lines("3SGB", "I", 0, 8)
    out.append(("frag-3SGB-I0+8", e + [C.TER]))
    for src, lines, a1, a2 in C.adjacent_same_type(pad=1)[1:3]:
        out.append((f"same-type-twins-{src}-{a1[1]}", C.make_twins(lines, a1, a2) + [C.TER]))
    # two copies of the same ligand in one chain (hetero group labels carry no residue number)
    dfr = C.atom_lines("4DFR")
    mtx_a = [ln for ln in dfr if ln.startswith("HETATM") and ln[17:20] == "MTX" and ln[21] == "A" and ln[16] in " A"]
    mtx_b = [ln for ln in dfr if ln.startswith("HETATM") and ln[17:20] == "MTX" and ln[21] == "B" and ln[16] in " A"]
    if mtx_a and mtx_b:
        near = C.chain_lines("4DFR", "A", 20, 12)
        out.append(("two-ligand-copies", near + [C.TER] + mtx_a + C.rename_chain(mtx_b, "B", "A")))
    out.append(("frag-1HPX-A0+40", C.chain_lines("1HPX", "A", 0, 40) + [C.TER]))
    # a free cysteine hydrogen-bonded to a lysine of another chain (NZ 3.1 A from SG, pointing away from the cysteine's
    # own fragment): listing the lysine only, the cysteine still has to act as its partner
    from .. import pdbio
    cf = C.chain_lines("1FTJ-Chain-A", "A", 30, 6)
    sg = [pdbio.parse_line(ln) for ln in cf if C.is_atom(ln) and ln[17:20] == "CYS" and ln[12:16].strip() == "SG"]
    kf = C.rename_chain(C.chain_lines("1HPX", "A", 40, 8), "A", "K")
    if sg:
        cx, cy, cz = C.centroid(cf)
        v = [sg[0].x - cx, sg[0].y - cy, sg[0].z - cz]
        n = max(1.0, sum(x * x for x in v) ** 0.5)
        for tipl in [pdbio.parse_line(ln) for ln in kf if C.is_atom(ln) and ln[17:20] == "LYS" and ln[12:16].strip() == "NZ"]:
            kx, ky, kz = C.centroid(kf)
            best = None
            dirs = [[v[0] / n, v[1] / n, v[2] / n], [1, 0, 0], [-1, 0, 0], [0, 1, 0], [0, -1, 0], [0, 0, 1], [0, 0, -1]]
            for u in dirs:
                tgt = [sg[0].x + 3100 * u[0], sg[0].y + 3100 * u[1], sg[0].z + 3100 * u[2]]
                t = [int(tgt[0] - tipl.x), int(tgt[1] - tipl.y), int(tgt[2] - tipl.z)]
                moved = C.translate(kf, *t)
                pa = [pdbio.parse_line(x) for x in cf if C.is_atom(x)]
                pb = [pdbio.parse_line(x) for x in moved if C.is_atom(x)]
                dmin = min((a_.x - b_.x) ** 2 + (a_.y - b_.y) ** 2 + (a_.z - b_.z) ** 2 for a_ in pa for b_ in pb
                           if not (a_.name.strip() == "SG" and b_.name.strip() == "NZ"))
                if dmin >= 2300 ** 2:
                    best = moved
                    break
            if best:
                out.append(("free-CYS+LYS-hbonded", cf + [C.TER] + best + [C.TER]))
                break
    # alternate locations: later conformations are completed with copies of atoms of the first one
    alt = a
    for r_ in [r for r in ids if any(C.resid(ln) == r and ln[17:20] in ("ASP", "GLU", "LYS", "ARG", "HIS", "TYR") for ln in a)][:2]:
        alt = C.add_altloc(alt, r_)
    out.append(("frag-1HPX-A20+7+altlocs", alt + [C.TER]))
    # a disulfide bridge (CYS E42 - CYS E58 of 3SGB): a bridged cysteine does not titrate, listed or not
    ss = C.chain_lines("3SGB", "E", 12, 4) + [C.TER] + C.rename_chain(C.chain_lines("3SGB", "E", 32, 4), "E", "F") + [C.TER]
    out.append(("frag-3SGB-disulfide", ss))
    # iterative acid-base pairs that are hydrogen-bonded (TYR 11 - LYS 13 of 3SGB I, GLU 42 - HIS 46 of 1FTJ, GLU 139 -
    # HIS 141 of 4DFR B): listing one member only, the other one still has to act as its partner (IonPairKept)
    def by_number(src, chain, lo, hi):
        return [ln for ln in C.chain_lines(src, chain) if lo <= int(ln[22:26]) <= hi]
    out.append(("ionpair-3SGB-I7-18", by_number("3SGB", "I", 7, 18) + [C.TER]))
    out.append(("ionpair-1FTJ-A39-49", by_number("1FTJ-Chain-A", "A", 39, 49) + [C.TER]))
    # ... and in their whole proteins, where the pair also has a Coulomb interaction when both titrate (in a fragment the
    # pair is too exposed for one); only the members of the pairs are listed, one at a time (ION_SINGLES)
    out.append(("ionpair-3SGB", [ln for ln in C.body(C.test_pdb_text("3SGB")) if C.is_atom(ln) or ln.startswith("TER")]))
    if ctx.thorough():
        out.append(("ionpair-4DFR-B136-144", [ln for ln in by_number("4DFR", "B", 136, 144) if ln[16] in " A"] + [C.TER]))
        out.append(("ionpair-1FTJ", [ln for ln in C.body(C.test_pdb_text("1FTJ-Chain-A")) if C.is_atom(ln) or ln.startswith("TER")]))
        out.append(("ionpair-4DFR", [ln for ln in C.body(C.test_pdb_text("4DFR")) if C.is_atom(ln) or ln.startswith("TER")]))
    if ctx.thorough():
        out.append(("frag-2chains", C.chain_lines("1HPX", "A", 24, 4) + [C.TER] + C.chain_lines("1HPX", "B", 24, 4) + [C.TER]))
    return out


def run(ctx):
    from propka.lib import parse_res_string
    ctx.rule = ("cases = parser entries (TLC-emitted) and runs (fragment x subset of residues as -i list); non-trivial = "
                "proper non-empty subset; distinct = (fragment, subset)")
    r = tlc.run("MC_TitrateOnly", "MC_TitrateOnly.cfg", timeout=600)
    ctx.add_tlc(r, "parser grammar and filter laws")
    if not r.ok:
        raise tlc.TLCError("spec-level failure in MC_TitrateOnly:\n" + r.stdout[-3000:])
    r = tlc.run("MC_TitrateOnly", "Gen_TitrateOnly.cfg", workers=1, timeout=600)
    ctx.add_tlc(r, "entry generator")
    bad = {}
    for c in r.printed:
        if c["k"] != "parse":
            continue
        e = c["e"]
        if e["tail"] == "-":
            continue      # a non-letter after the digits is outside the documented grammar: not judged
        s = entry_string(e)
        ctx.count()
        ctx.nontriv(("parse", s))
        try:
            got = list(parse_res_string(s))
        except ValueError:
            got = ["ValueError"]
        except Exception as ex:  # noqa
            got = [type(ex).__name__]
        if got != list(c["exp"]):
            bad.setdefault(f"parse:{'accepts' if c['exp'] == ['ValueError'] else 'wrong'}:colons{e['colons']}:tail{e['tail']!r}",
                           (s, got, c["exp"]))
    ctx.traces += 1
    for k, (s, got, exp) in sorted(bad.items()):
        ctx.violation(k, f"parse_res_string({s!r}) -> {got}, grammar gives {exp}", {"entry": s})
    # ---- T -----------------------------------------------------------------------------
    rng = random.Random(ctx.seed)
    cases = []
    rels = []
    npairs_ion = 0
    # pairs scored non-iteratively ('N' in the working tree's interaction matrix) always list each other when they are
    # hydrogen-bonded; for iterative pairs the listing depends on the computed pKa values and may legitimately change
    from propka.parameters import Parameters
    from propka.input import read_parameter_file
    with runner.quiet():
        _pm = read_parameter_file("propka.cfg", Parameters()).interaction_matrix
    non_iterative = lambda t1, t2: _pm.get_value(t1, t2) == "N"  # noqa
    with runner.quiet():
        _par = read_parameter_file("propka.cfg", Parameters())
    _exc = [getattr(_par, k_) for k_ in ("COO_HIS_exception", "OCO_HIS_exception", "CYS_HIS_exception", "CYS_CYS_exception") if hasattr(_par, k_)]

    def ion_pair(g, h, value):
        # an iterative pair of opposite charges whose hydrogen-bond value in the unrestricted run is not an exception value
        return (_pm.get_value(g.type, h.type) == "I" and g.charge * h.charge < 0 and abs(value) > 1e-6
                and not any(abs(abs(value) - e_) < 1e-6 for e_ in _exc))
    import logging as _logging

    class _Conv(_logging.Handler):
        def __init__(self):
            super().__init__(level=_logging.INFO)
            self.hit = 0

        def emit(self, record):
            try:
                if "did not converge" in record.getMessage():
                    self.hit = 1
            except Exception:  # noqa
                pass

    def run_watching_convergence(text_, opts_):
        lg = _logging.getLogger("propka.iterative")
        h_ = _Conv()
        old_level, old_prop = lg.level, lg.propagate
        lg.addHandler(h_)
        lg.setLevel(_logging.INFO)      # (the root logger is at WARNING during harness runs; its handler ignores INFO)
        try:
            r_ = runner.run(text_, opts_)
        finally:
            lg.removeHandler(h_)
            lg.setLevel(old_level)
            lg.propagate = old_prop
        return r_, h_.hit
    for name, lines in fragments(ctx):
        text = C.join(lines)
        ids = []
        for ln in lines:
            if C.is_atom(ln) and C.resid(ln) not in ids:
                ids.append(C.resid(ln))
        base = runner.run(text, ["-q"])
        ctx.count()
        if base.exc is not None:
            ctx.violation(f"run:exception:{name}", repr(base.exc), {"pdb": text})
            continue
        if name in ION_SINGLES:
            subsets = [(r,) for r in ION_SINGLES[name] if r in ids]
        elif len(ids) <= 10:
            subsets = [s for n in range(0, len(ids) + 1) for s in itertools.combinations(ids, n)]
            if not ctx.thorough():
                subsets = [s for s in subsets if len(s) in (1, len(ids) - 1, len(ids))] + rng.sample(subsets, 12)
        else:
            subsets = [tuple(ids)] + [(r,) for r in ids[:: 1 if (ctx.thorough() or name.startswith("ionpair-")) else 3]]
            subsets += [tuple(r for r in ids if r != x) for x in ids[::7]]
            for _ in range(60 if ctx.thorough() else 10):
                subsets.append(tuple(sorted(rng.sample(ids, rng.randrange(2, len(ids))), key=ids.index)))
        # a list that names no existing residue: nothing titrates (census with an empty listed set)
        cases.append((f"{name} -i Z:999,A:998B", text, ["-i", "Z:999,A:998B"]))
        for sub in subsets:
            if not sub:
                continue
            lst = ",".join(res_entry(r) for r in sub)
            opts = ["-i", lst]
            cases.append((f"{name} -i {lst}", text, opts))
            ri, noconv = run_watching_convergence(text, ["-q"] + opts)
            ctx.count()
            meta = {"input": name, "list": lst, "pdb": text}
            if ri.exc is not None:
                ctx.violation(f"titrate-only:exception:{name}", f"-i {lst} raises {ri.exc!r}", meta)
                continue
            ctx.nontriv((name, lst))
            kind = "SameAll" if len(sub) == len(ids) else "EnvKept"
            rels.append(relations.relate(kind, base, text, ri, text, present=True, sc_filter=non_iterative, meta=dict(meta, what=kind),
                                         ion_filter=ion_pair, conv_b=0 if noconv else 1))
            npairs_ion += len(rels[-1]["ion"])
            if len(sub) <= 2:
                lst2 = lst + ",Z:999,A:998B"
                ru = runner.run(text, ["-q", "-i", lst2])
                ctx.count()
                if ru.exc is not None:
                    ctx.violation(f"titrate-only:unknown-entry-exception:{name}", f"-i {lst2} raises {ru.exc!r}", meta)
                else:
                    rels.append(relations.relate("SameAll", ri, text, ru, text, meta=dict(meta, what="unknown entries", list=lst2)))
    # together with a chain selection that selects everything there is: nothing changes (a blank chain identifier is ' '
    # for --chain and '_' in the list)
    for nm_, lines_ in fragments(ctx)[:1]:
        for ch_, sel_, pre_ in (("A", "A", "A"), (" ", " ", "_")):
            txt_ = C.join(C.rename_chain(lines_, "A", ch_))
            ids_ = []
            for ln in lines_:
                if C.is_atom(ln) and C.resid(ln) not in ids_:
                    ids_.append(C.resid(ln))
            for lst_ in (",".join(f"{pre_}:{r_[1]}" for r_ in ids_[:3]), ",".join(f"{pre_}:{r_[1]}" for r_ in ids_)):
                r1_ = runner.run(txt_, ["-q", "-i", lst_])
                r2_ = runner.run(txt_, ["-q", "-i", lst_, "-c", sel_])
                ctx.count()
                meta_ = {"input": f"{nm_} chain {ch_!r}", "list": lst_, "pdb": txt_, "what": "with --chain " + repr(sel_)}
                if r1_.exc is None and r2_.exc is None:
                    rels.append(relations.relate("SameAll", r1_, txt_, r2_, txt_, meta=meta_))
                elif (r1_.exc is None) != (r2_.exc is None):
                    ctx.violation(f"titrate-only:with-chain:exception:{nm_}", f"-i {lst_}: alone -> {r1_.exc!r}; with -c {sel_!r} -> {r2_.exc!r}",
                                  {"pdb": txt_, "optargs": ["-i", lst_, "-c", sel_]})
    # lists that name two chains: a number listed for one chain is not listed for the other (also when the other chain
    # does not exist)
    two_ = C.join(C.chain_lines("1HPX", "A", 23, 8) + [C.TER] + C.chain_lines("1HPX", "B", 23, 8) + [C.TER])
    for lst_ in ("A:25,B:29", "A:29,B:30", "A:25,Z:29", "B:30,A:999"):
        cases.append((f"frag-2chains -i {lst_}", two_, ["-i", lst_]))
    # census with the option (Trace_Run!C01_Census uses ListedRes)
    recs, metas, _ = runbank.run_and_record(ctx, cases)
    viol = runbank.validate(ctx, recs, metas, ["C01_Census", "C01_ExactlyOnce", "C14_UnlistedUnscored"], "titrate-only census")
    texts = {c[0]: c for c in cases}
    for inv, lst in sorted(viol.items()):
        for rec, m in lst[:5]:
            ctx.violation(f"titrate-only:census:{inv}:{m['input'].split(' -i ')[0]}", f"{inv} violated on {m}",
                          {"pdb": texts[m["input"]][1], "optargs": m["optargs"]})
    ctx.extra["iterative_acid_base_pairs_with_one_member_listed"] = npairs_ion
    rv = relations.validate(ctx, rels, ["SameConfs", "SameAll", "EnvKept", "PartnersKept", "IonPairKept"], "titrate-only vs no option")
    seen = set()
    for inv, lst in sorted(rv.items()):
        for rel in lst:
            m = rel["meta"]
            key = f"titrate-only:{inv}:{m['what']}:{m['input']}"
            if key in seen:
                continue
            seen.add(key)
            detail = relations.diff_summary(rel)
            if inv == "IonPairKept":
                detail = ["hydrogen-bonded acid-base pair no longer joined although acid pKa %.2f - base pKa %.2f < 2 x %.2f"
                          % (p_[1] / 1e6, p_[2] / 1e6, p_[3] / 1e6) for p_ in rel["ion"] if p_[0] == 0 and p_[1] - p_[2] < 2 * p_[3] - 2000]
            ctx.violation(key, f"-i {m['list']} on {m['input']} ({m['what']}): {detail}",
                          {"pdb": m["pdb"], "optargs": ["-i", m["list"]]})
    if rels:
        ctx.sample({"input": rels[0]["meta"]["input"], "list": rels[0]["meta"]["list"]})
    ctx.extra["relation_pairs"] = len(rels)


def replay(ctx, path):
    case = json.load(open(path))
    print(case["what"])
