"""C06 - residue and chain labels identify residues but never influence the numbers.
Spec: tla/Identity.tla (relabellings of the statement, key faithfulness), tla/Relations.tla + Trace_Rel.tla
      (SameUpToLabels).

M  MC_Identity: every relabelling descriptor (chain map x shift per chain x {none, sequential, twins at
   chain start / interior / second chain}) keeps the labelling valid; the full key is faithful, the weaker
   keys the implementation also uses fail exactly on insertion-coded twins.
G  every emitted descriptor is applied to real multi-chain structures (fixed-column rewrite of chain, number
   and insertion code only); the relabelled run is compared with the baseline by file position.
T  Trace_Rel!SameUpToLabels over all groups, determinants (matched by position in the file), conformations.
"""
import json

from .. import corpus, relations, runner, tlc, patches

C = corpus


def chain_order(lines):
    seen = []
    for ln in lines:
        if C.is_atom(ln) and ln[:4] == "ATOM" and ln[21] not in seen:
            seen.append(ln[21])
    return seen


def residue_ids(lines, chain):
    ids = []
    for ln in lines:
        if C.is_atom(ln) and ln[21] == chain and C.resid(ln) not in ids:
            ids.append(C.resid(ln))
    return ids


def apply_descriptor(lines, d):
    """Rewrite labels of the first two protein chains according to a descriptor of MC_Identity."""
    chains = chain_order(lines)
    if len(chains) < 2:
        return None
    a, b = chains[0], chains[1]
    out = list(lines)
    mode = d["mode"]
    if mode.startswith("twins"):
        ch = b if mode == "twinsB" else a
        ids = residue_ids(out, ch)
        p = 0 if mode == "twinsStartA" else 1
        if len(ids) < p + 2:
            return None
        out = C.relabel_residues(out, {ids[p + 1]: (ids[p][0], ids[p][1], "A" if ids[p][2] == " " else chr(ord(ids[p][2]) + 1))})
    if mode in ("codeA", "codeB"):
        ids = residue_ids(out, a if mode == "codeA" else b)
        # the model's "second residue" is played by the first ionizable residue after the chain start
        ion = [r for r in ids[1:] if r[2] == " " and any(C.is_atom(ln) and C.resid(ln) == r and ln[17:20] in
                                                          ("ASP", "GLU", "HIS", "TYR", "LYS", "ARG", "CYS") for ln in out)]
        tgt = ion[0] if ion else (ids[1] if len(ids) > 1 else None)
        if tgt is None or tgt[2] != " ":
            return None
        out = C.relabel_residues(out, {tgt: (tgt[0], tgt[1], "A")})
    sa, sb = d["sa"], d["sb"]
    ia, ib = residue_ids(out, a), residue_ids(out, b)
    # the symbolic shift 3 of the model: the shifted chain meets the other chain's number at the chain boundary
    if sb == 3 and ia and ib:
        sb = (ia[-1][1] + (sa if sa != 3 else 0)) - ib[0][1]
    if sa == 3 and ia and ib:
        sa = (ib[0][1] + sb) - ia[-1][1]
    for ids_, sh in ((ia, sa), (ib, sb)):
        if ids_ and not (-999 <= min(r[1] for r in ids_) + sh and max(r[1] for r in ids_) + sh <= 9999):
            return None          # the relabelling must stay inside the four-column number field
    out = C.shift_numbers(out, sa, a)
    out = C.shift_numbers(out, sb, b)
    if mode == "sequential":
        out = C.renumber_sequential(out, 1)
    # chain renaming (simultaneous): A -> cm.A, B -> cm.B ; other chains untouched
    ma, mb = d["cm"]["A"], d["cm"]["B"]
    others = set(chains[2:]) | {ln[21] for ln in out if C.is_atom(ln)} - {a, b}
    if ma in others or mb in others or ma == mb:
        return None
    tmp = C.rename_chain(C.rename_chain(out, a, "\x01"), b, "\x02")
    out = C.rename_chain(C.rename_chain(tmp, "\x01", ma), "\x02", mb)
    # validity: distinct residues keep distinct labels, numbers fit the field
    seen = {}
    k = 0
    prev = None
    for ln in out:
        if C.is_atom(ln):
            rid = C.resid(ln)
            if not (-999 <= rid[1] <= 9999):
                return None
            if rid != prev:
                k += 1
                if rid in seen:
                    return None
                seen[rid] = k
                prev = rid
    return out


def structures(ctx):
    out = []
    a = C.chain_lines("1HPX", "A", 20, 14)
    b = C.chain_lines("1HPX", "B", 20, 14)
    out.append(("frag-1HPX-AB", a + [C.TER] + b + [C.TER]))
    # alternate locations in both chains of the dimer: conformation completion looks residues up by chain and number
    ra = [r for r in residue_ids(a, "A")][4:9]
    rb = [r for r in residue_ids(b, "B")][6:11]
    aa, bb = a, b
    for r_ in ra[::2]:
        aa = C.add_altloc(aa, r_)
    for r_ in rb[::2]:
        bb = C.add_altloc(bb, r_, delta=(-250, 300, 200))
    out.append(("frag-1HPX-AB+altlocs", aa + [C.TER] + bb + [C.TER]))
    # an inter-chain disulfide between cysteines that carry the same residue number (symmetric bridge of a homodimer)
    ss = C.chain_lines("3SGB", "E", 12, 4) + [C.TER] + C.rename_chain(C.chain_lines("3SGB", "E", 32, 4), "E", "F") + [C.TER]
    n1 = [C.resid(ln)[1] for ln in ss if C.is_atom(ln) and ln[21] == "E" and ln[17:20] == "CYS"][0]
    n2 = [C.resid(ln)[1] for ln in ss if C.is_atom(ln) and ln[21] == "F" and ln[17:20] == "CYS"][0]
    out.append(("disulfide-same-number", C.shift_numbers(ss, n1 - n2, "F")))
    e = C.chain_lines("3SGB", "E", 170, 30)     # contains 192A/192B-like insertion codes? (kept as is)
    i = C.chain_lines("3SGB", "I", 0, 20)
    out.append(("frag-3SGB-EI", e + [C.TER] + i + [C.TER]))
    # a C-terminus (with its terminal oxygen) followed by the N-terminus of the next chain
    out.append(("cterm+nterm", C.chain_lines("1HPX", "A", 93, 6) + [C.TER] + C.chain_lines("1HPX", "B", 0, 6) + [C.TER]))
    # same-type adjacent residues at the positions the twin modes relabel (residues 2 and 3 of the first chain)
    for src, lines, a1, a2 in C.adjacent_same_type(pad=1)[1:3]:
        b2 = C.chain_lines("1HPX", "B", 20, 6)
        out.append((f"same-type-{src}-{a1[1]}", C.rename_chain(lines, a1[0], "A") + [C.TER] + b2 + [C.TER]))
    if ctx.thorough():
        out.append(("1HPX", C.body(C.test_pdb_text("1HPX"))))
        out.append(("3SGB", C.body(C.test_pdb_text("3SGB"))))
    return out


def run(ctx):
    ctx.rule = ("cases = relabelling descriptors (TLC-emitted) applied to real structures; non-trivial = descriptor that "
                "changes at least one label; distinct = (structure, descriptor)")
    r = tlc.run("MC_Identity", "MC_Identity.cfg", timeout=600)
    ctx.add_tlc(r, "relabelling descriptors: validity and key faithfulness")
    if not r.ok:
        raise tlc.TLCError("spec-level failure in MC_Identity:\n" + r.stdout[-3000:])
    r = tlc.run("MC_Identity", "Gen_Identity.cfg", workers=1, timeout=600)
    ctx.add_tlc(r, "descriptor generator")
    descs = [c["d"] for c in r.printed]
    # a covering selection in the quick tier: every mode x every chain map, shifts varied
    if not ctx.thorough():
        sel, seen = [], set()
        cover = []
        for k, d in enumerate(descs):
            key = (d["mode"], json.dumps(d["cm"], sort_keys=True), d["sa"] == 3, d["sb"] == 3, abs(d["sa"]) == 1000, abs(d["sb"]) == 1000)
            plain = d["mode"] == "none" and d["cm"]["A"] == "A" and d["cm"]["B"] == "B"     # every pair of shifts
            if key not in seen:
                cover.append(d)
            if key not in seen or plain or (k % 37 == ctx.seed % 37):
                seen.add(key)
                sel.append(d)
        descs = sel
    rels = []
    full = [("3SGB-sequential", C.body(C.test_pdb_text("3SGB")), {"mode": "sequential", "sa": 0, "sb": 0, "cm": {"A": "E", "B": "I"}}),
            ("1HPX-swap-shift", C.body(C.test_pdb_text("1HPX")), {"mode": "none", "sa": -40, "sb": 100, "cm": {"A": "B", "B": "A"}})]
    # numbers that fill the four columns of their field (>= 1000, <= -100) on the whole dimer, whose catalytic aspartates
    # are a coupled pair only just (labels are fixed-width: 'ASP1025 A', 'ASP-375 A')
    full.append(("1HPX-shift-four-columns", C.body(C.test_pdb_text("1HPX")),
                 {"mode": "none", "sa": (1000, -400)[ctx.seed % 2], "sb": (1000, -400)[ctx.seed % 2], "cm": {"A": "A", "B": "B"}}))
    # the two methotrexate molecules of 4DFR swap chain identifiers: what was said about 'MTX  N8 B' in the first run (there
    # it is the discarded member of its covalently coupled system) must not stick to the group that carries this label now
    full.append(("4DFR-swap-chains", C.body(C.test_pdb_text("4DFR")), {"mode": "none", "sa": 0, "sb": 0, "cm": {"A": "B", "B": "A"}}))
    if ctx.thorough():
        full.append(("4DFR-shift-B", C.body(C.test_pdb_text("4DFR")), {"mode": "none", "sa": 0, "sb": 3, "cm": {"A": "A", "B": "B"}}))
        full.append(("1HPX-shift-four-columns", C.body(C.test_pdb_text("1HPX")),
                     {"mode": "none", "sa": (1000, -400)[1 - ctx.seed % 2], "sb": (1000, -400)[1 - ctx.seed % 2], "cm": {"A": "A", "B": "B"}}))
    if ctx.thorough():
        work = [(n, ls, d) for n, ls in structures(ctx) for d in descs] + full
    else:
        # the first structure sees the whole selection (every pair of shifts), the others the covering part
        # ... and the alt-loc dimer also every plain pair of the shifts that make numbers of the two chains meet
        meet = [d for d in descs if d["mode"] == "none" and d["cm"] == {"A": "A", "B": "B"} and d["sa"] in (-11, 0, 3) and d["sb"] in (-11, 0, 3)]
        work = [(n, ls, d) for si, (n, ls) in enumerate(structures(ctx))
                for d in (descs if si == 0 else cover[(si + ctx.seed) % 3::3] + (meet if si == 1 else []))] + full
    base_cache = {}
    for name, lines, d in work:
        new = apply_descriptor(lines, d)
        if new is None or new == lines:
            continue
        text_a, text_b = C.join(lines), C.join(new)
        if name not in base_cache:
            base_cache[name] = runner.run(text_a, ["-q"], write=True)
            ctx.count()
        ra = base_cache[name]
        rb = runner.run(text_b, ["-q"], write=(d["mode"] == "none"))
        ctx.count()
        meta = {"input": name, "desc": d, "pdb": text_b, "orig": text_a}
        if ra.exc is not None or rb.exc is not None:
            if rb.exc is not None and ra.exc is None:
                ctx.violation(f"relabel:exception:{d['mode']}:{name}", f"relabelled input raises {rb.exc!r}", meta)
            continue
        ctx.nontriv((name, json.dumps(d, sort_keys=True)))
        rels.append(relations.relate("SameUpToLabels", ra, text_a, rb, text_b, meta=meta, roworder=(d["mode"] == "none")))
    # the same relabellings under a chain selection: `-c <first chain>` before and after renaming
    sel_base = {}
    done = set()
    cms = sorted({json.dumps(d["cm"], sort_keys=True) for d in descs})
    for name, lines, d in [(n, ls, {"mode": "none", "sa": 0, "sb": 0, "cm": json.loads(cm)}) for n, ls in structures(ctx)[:2] for cm in cms]:
        cmkey = json.dumps(d["cm"], sort_keys=True)
        new = apply_descriptor(lines, d)
        chains = chain_order(lines)
        if new is None or len(chains) < 2:
            continue
        text_a, text_b = C.join(lines), C.join(new)
        if name not in sel_base:
            sel_base[name] = runner.run(text_a, ["-q", "-c", chains[0]], write=False)
            ctx.count()
        ra = sel_base[name]
        rb = runner.run(text_b, ["-q", "-c", d["cm"]["A"]], write=False)
        ctx.count()
        if ra.exc is not None or rb.exc is not None:
            if rb.exc is not None and ra.exc is None:
                ctx.violation(f"relabel:exception:chain-selection:{name}", f"relabelled input with -c raises {rb.exc!r}",
                              {"pdb": text_b, "orig": text_a, "desc": d})
            continue
        ctx.nontriv((name, cmkey, "-c"))
        rels.append(relations.relate("SameUpToLabels", ra, text_a, rb, text_b,
                                     meta={"input": name + " -c", "desc": d, "pdb": text_b, "orig": text_a}))
    # the same relabellings under a titrate-only list that is relabelled along (negative numbers, insertion codes, other
    # chain names): the listed residues are the same residues before and after
    def tlist(lines_, pick):
        out_, seen_ = [], []
        for ln in lines_:
            if C.is_atom(ln) and ln[:4] == "ATOM":
                rid = C.resid(ln)
                if rid not in seen_:
                    seen_.append(rid)
        return seen_
    tdone = set()
    for name, lines, d in work:
        if name not in dict(structures(ctx)[:1]) or d["mode"] not in ("none", "codeA", "twinsA") or (d["mode"], d["sa"], d["sb"]) in tdone:
            continue
        if not (d["sa"] in (-40, -1000, 0) and d["sb"] in (-40, -11, 100)):
            continue
        new = apply_descriptor(lines, d)
        if new is None:
            continue
        tdone.add((d["mode"], d["sa"], d["sb"]))
        ra_ids, rb_ids = tlist(lines, None), tlist(new, None)
        if len(ra_ids) != len(rb_ids):
            continue
        ion = [k for k, rid in enumerate(ra_ids) if any(C.is_atom(ln) and C.resid(ln) == rid and ln[17:20] in
                                                         ("ASP", "GLU", "HIS", "TYR", "LYS", "ARG") for ln in lines)]
        sel = ion[::2][:6]
        ent = lambda rid: f"{'_' if rid[0] == ' ' else rid[0]}:{rid[1]}{rid[2].strip()}"  # noqa
        la, lb = ",".join(ent(ra_ids[k]) for k in sel), ",".join(ent(rb_ids[k]) for k in sel)
        text_a, text_b = C.join(lines), C.join(new)
        ra = runner.run(text_a, ["-q", "-i", la], write=False)
        rb = runner.run(text_b, ["-q", "-i", lb], write=False)
        ctx.count()
        if ra.exc is not None or rb.exc is not None:
            if (ra.exc is None) != (rb.exc is None):
                ctx.violation(f"relabel:exception:titrate-only:{name}", f"-i {la} -> {ra.exc!r}; relabelled -i {lb} -> {rb.exc!r}",
                              {"pdb": text_b, "orig": text_a, "desc": d, "optargs": ["-i", lb]})
            continue
        ctx.nontriv((name, json.dumps(d, sort_keys=True), "-i"))
        rels.append(relations.relate("SameUpToLabels", ra, text_a, rb, text_b,
                                     meta={"input": name + " -i", "desc": d, "pdb": text_b, "orig": text_a}))
    viol = relations.validate(ctx, rels, ["SameConfs", "SameUpToLabels", "RowOrderSame"], "relabelled vs baseline")
    reported = set()
    pending = []
    for inv, lst in sorted(viol.items()):
        for rel in lst:
            m = rel["meta"]
            d = m["desc"]
            twins = "twins" if (d["mode"].startswith("twins") or _has_twins(m["orig"]) or _has_twins(m["pdb"])) else "notwins"
            diffs = relations.diff_summary(rel, limit=3)
            field = "desolvation" if any(" nv:" in x or " ev6:" in x or " bur4:" in x for x in diffs) else "scoring"
            key = f"relabel:{twins}:{field}:{m['input']}:{d['mode']}"
            if inv == "RowOrderSame":
                key = f"relabel:row-order:{m['input']}:{d['mode']}"
                diffs = [f"rows of the written file come in another order: {rel['rowsA'][:12]} ... vs {rel['rowsB'][:12]} ..."]
            if key in reported:
                continue
            reported.add(key)
            pending.append((key, twins, m, d, diffs))
    # attribution by diagnostic patch (F3a): does the difference vanish under the presumed repair? (one TLC run for all)
    prels, pidx = [], []
    tw = [k for k, p_ in enumerate(pending) if p_[1] == "twins"]
    if tw:
        with patches.f3a_same_residue_with_icode() as ok:
            if ok:
                for k in tw:
                    m = pending[k][2]
                    pa = runner.run(m["orig"], ["-q"] + (["-c", chain_order(m["orig"].splitlines())[0]] if m["input"].endswith(" -c") else []), write=False)
                    pb = runner.run(m["pdb"], ["-q"] + (["-c", m["desc"]["cm"]["A"]] if m["input"].endswith(" -c") else []), write=False)
                    if pa.exc is None and pb.exc is None:
                        prels.append(relations.relate("SameUpToLabels", pa, m["orig"], pb, m["pdb"], meta=dict(m, _k=k)))
                        pidx.append(k)
    attributed = set()
    if prels:
        pv = relations.validate(ctx, prels, ["SameConfs", "SameUpToLabels"], "diagnostic patch F3a")
        still = {rel["meta"]["_k"] for lst in pv.values() for rel in lst}
        attributed = set(pidx) - still
    for k, (key, twins, m, d, diffs) in enumerate(pending):
        if k in attributed:
            key = "relabel:twins:desolvation-same-residue-test-ignores-icode"
        ctx.violation(key, f"{m['input']} relabelled by {d}: {diffs}", {"pdb": m["pdb"], "orig": m["orig"], "desc": d})
    if rels:
        ctx.sample({"input": rels[0]["meta"]["input"], "descriptor": rels[0]["meta"]["desc"]})
    ctx.extra["relation_pairs"] = len(rels)


def _has_twins(text):
    seen = set()
    for ln in text.splitlines():
        if C.is_atom(ln):
            c, n, i = C.resid(ln)
            seen.add((c, n, i))
    pairs = {}
    for c, n, i in seen:
        pairs.setdefault((c, n), set()).add(i)
    return any(len(v) > 1 for v in pairs.values())


def replay(ctx, path):
    case = json.load(open(path))
    print(case["what"])
    p = case["payload"]
    ra = runner.run(p["orig"], ["-q"], write=False)
    rb = runner.run(p["pdb"], ["-q"], write=False)
    rel = relations.relate("SameUpToLabels", ra, p["orig"], rb, p["pdb"])
    print("\n".join(relations.diff_summary(rel, limit=20)) or "no difference")
