"""C02 - reported pKa = model pKa + listed contributions; the file shows the same numbers.
Spec: tla/Determinants.tla (control flow of calculate_pka with a dirty set; averaging lemma),
      tla/Trace_Run.tla (C02_SumIdentity, C02_RenderedTable, C02_RenderedSummary).

M  all interleavings of scoring / totals / sharing / penalising / removal for 3 groups under the four
   parameter settings; a self-test with the conditional recomputation of the pinned tree must be refuted.
T  full runs over structures x options (-d, -i, -c) x parameter files (remove_penalised_group,
   shared_determinants, common_charge_centre): TLC checks the sum identity on every group of every
   conformation and the average, and that the .pka table and summary render exactly those numbers.
"""
import json
import os

from .. import corpus, runbank, tlc, core, runner, covcoupling

C = corpus


def param_file(overrides, tag):
    """A parameter file = the working tree's propka.cfg with scalar overrides appended."""
    wd = runner.scratch()
    p = os.path.join(wd, f"params_{tag}.cfg")
    txt = open(os.path.join(core.REPO, "propka", "propka.cfg")).read()
    txt += "\n" + "\n".join(f"{k} {v}" for k, v in overrides.items()) + "\n"
    open(p, "w").write(txt)
    return p


PARAMS = {
    "keep-penalised": ({"remove_penalised_group": 0}, 1),
    "shared": ({"shared_determinants": 1}, 0),
    "shared+keep": ({"shared_determinants": 1, "remove_penalised_group": 0}, 1),
    "ccc": ({"common_charge_centre": 1}, 0),
    "ccc+shared+keep": ({"common_charge_centre": 1, "shared_determinants": 1, "remove_penalised_group": 0}, 1),
}


def cases(ctx):
    out = runbank.base_cases(ctx)
    out.append(("1HPX-from-CYS67", C.join([ln for ln in C.chain_lines("1HPX", "A", 66, 33)] + [C.TER]), []))
    out.append(("1HPX -d", C.test_pdb_text("1HPX"), ["-d"]))
    out.append(("1FTJ -d", C.test_pdb_text("1FTJ-Chain-A"), ["-d"]))
    big = ["3SGB", "1HPX"] if not ctx.thorough() else ["3SGB", "1HPX", "1FTJ-Chain-A", "4DFR", "3SGB-subset"]
    nterm = C.join(C.chain_lines("3SGB", "I", 0, 12) + [C.TER])
    for tag, (ov, keeppen) in PARAMS.items():
        pf = param_file(ov, tag)
        for n in big:
            out.append((f"{n} [{tag}]", C.test_pdb_text(n), ["-p", pf], {"keeppen": keeppen}))
        out.append((f"nterm-asp [{tag}]", nterm, ["-p", pf], {"keeppen": keeppen}))
    out += runbank.kit_cases(ctx, every=3 if ctx.thorough() else 18)
    # chains truncated so that they start at ASP / HIS / CYS: N+ and the side chain are covalently coupled, one of them is
    # penalised and its determinants are removed from its hydrogen-bond partners
    starts = []
    for src in ("1HPX", "4DFR", "1FTJ-Chain-A", "3SGB"):
        blocks = [b for b in C.residue_blocks(C.atom_lines(src)) if b[0] != "TER" and b[1][0].startswith("ATOM")]
        chain0 = blocks[0][0][0]
        blocks = [b for b in blocks if b[0][0] == chain0]
        for k, b in enumerate(blocks):
            if b[0][3] in ("ASP", "HIS", "CYS") and 0 < k < len(blocks) - 30:
                starts.append((src, k, blocks))
    import random as _r
    _r.Random(ctx.seed).shuffle(starts)
    for src, k, blocks in starts[: (40 if ctx.thorough() else 6)]:
        lines = [ln for b in blocks[k:k + 60] for ln in b[1] if ln[16] in " A"]
        out.append((f"{src}-from-{blocks[k][0][3]}{blocks[k][0][1].strip()}", C.join(lines + [C.TER]), []))
    for n in (["conf-alt-AB", "conf-model-missing-atoms"] if not ctx.thorough() else
              ["conf-alt-AB", "conf-alt-BC", "conf-alt-AB-mutant", "conf-model-missing-atoms", "conf-model-mutant"]):
        out.append((n, C.test_pdb_text(n), []))
    # chain selections the writer has to render too: a blank chain identifier, a chain named twice, the reverse file order
    fa = C.chain_lines("1HPX", "A", 20, 12)
    fb = C.chain_lines("1HPX", "B", 20, 12)
    blank = C.join(C.rename_chain(fa, "A", " ") + [C.TER] + fb + [C.TER])
    out.append(("blank+B -c ' '", blank, ["-c", " "]))
    out.append(("blank+B -c ' ' -c B", blank, ["-c", " ", "-c", "B"]))
    out.append(("frag-AB -c B -c A", C.join(fa + [C.TER] + fb + [C.TER]), ["-c", "B", "-c", "A"]))
    out.append(("frag-AB -c A -c A", C.join(fa + [C.TER] + fb + [C.TER]), ["-c", "A", "-c", "A"]))
    # a chain that ends in an acid: side-chain carboxylate and C-terminus are two groups of one type in one residue
    from .. import pdbio
    for resn, upto in (("ASP", 29), ("GLU", 35)):
        ch = [ln for ln in C.chain_lines("1HPX", "A", 0, 40) if int(ln[22:26]) <= upto]
        last = [ln for ln in ch if int(ln[22:26]) == upto]
        o = [pdbio.parse_line(ln) for ln in last if ln[12:16].strip() == "O"]
        c_ = [pdbio.parse_line(ln) for ln in last if ln[12:16].strip() == "C"]
        if o and c_ and last[0][17:20] == resn:
            # OXT opposite to O with respect to C (in the carboxylate plane is not needed for the identity checked here)
            x, y, z = (2 * c_[0].x - o[0].x + 600, 2 * c_[0].y - o[0].y + 400, 2 * c_[0].z - o[0].z)
            oxt = pdbio.atom_line("ATOM", 9990, "OXT", " ", resn, "A", upto, " ", x, y, z, elem="O")
            out.append((f"1HPX-A-ends-in-{resn}{upto}", C.join(ch + [oxt, C.TER]), []))
    # two residues of one type that differ in their insertion code only (97 / 97A): their groups carry the same label, and
    # each of them owes a block in the determinant table and a row in the summary
    for src_, lines_, a1_, a2_ in C.adjacent_same_type(pad=3)[: (None if ctx.thorough() else 3)]:
        out.append((f"same-type-twins-{src_}-{a1_[1]}", C.join(C.make_twins(lines_, a1_, a2_) + [C.TER]), []))
    # conformations that disagree on which group of a covalently coupled system titrates (methotrexate N1 / N8 next to
    # ASP A 27 of 4DFR, whose carboxylate gets a second location 0.3 A away)
    for sh in ([(300, 0, 0)] if not ctx.thorough() else [(300, 0, 0), (-300, 0, 0), (0, 300, 0), (0, 0, 300), (200, 200, -100)]):
        out.append(("4DFR+ASP27-alt%+d%+d%+d" % sh, C.join(C.add_altloc(C.atom_lines("4DFR"), ("A", 27, " "), delta=sh)), []))
    # point mutants between conformations: a reported group that exists in some conformations only
    from . import c08
    multi = dict(c08.constructed(ctx))
    for n in (("mutant-A-ASP-B-ASN", "mutant-A-ASN-B-ASP") if not ctx.thorough() else
              ("mutant-A-ASP-B-ASN", "mutant-A-ASN-B-ASP", "asp-only-in-A", "asp-only-in-B", "model2-missing-atoms", "twins+altloc",
               "nterm-residue-altAB")):
        if n in multi:
            out.append((n, multi[n], []))
    return out


def _squash(toks):
    out = []
    for t in toks:
        if out and out[-1][0] == t:
            out[-1][1] += 1
        else:
            out.append([t, 1])
    return " ".join(t if n == 1 else f"{t}x{n}" for t, n in out if t not in ("pre",))[:600]


def run(ctx):
    ctx.rule = ("cases = full runs (structure x options x parameter file); non-trivial = run with >= 1 reported group; "
                "every group of every conformation and of the average is one evaluation of the identity")
    # ---- M -------------------------------------------------------------------------------
    suffix = "_t.cfg" if ctx.thorough() else ".cfg"
    for f in ("TRUE_TRUE_TRUE", "TRUE_FALSE_TRUE", "FALSE_TRUE_TRUE", "FALSE_FALSE_TRUE"):
        r = tlc.run("MC_Determinants", f"MC_Determinants_{f}{suffix}", timeout=3000)
        ctx.add_tlc(r, f"calculate_pka flow, (shared, remove, recompute) = {f}")
        if not r.ok:
            raise tlc.TLCError("spec-level failure in MC_Determinants:\n" + r.stdout[-3000:])
    r = tlc.run("MC_Determinants", "MC_Determinants_TRUE_FALSE_FALSE.cfg", timeout=3000)
    ctx.extra["selftest_conditional_recompute_refuted"] = r.invariant_violated in ("C02_SumIdentity", "C02_Clean")
    if not ctx.extra["selftest_conditional_recompute_refuted"]:
        raise tlc.TLCError("self-test failed: stale totals after sharing were not refuted")
    # the layout of the written file (tla/PkaFile.tla): every file the writer can compose is accepted, counters faithful,
    # one-line damage noticed
    r = tlc.run("MC_PkaFile", "MC_PkaFile.cfg" if ctx.thorough() else "MC_PkaFile_q.cfg", timeout=3000)
    ctx.add_tlc(r, "layout of the written file: writer vs acceptor, damage noticed")
    if not r.ok:
        raise tlc.TLCError("spec-level failure in MC_PkaFile:\n" + r.stdout[-3000:])
    # ---- T -------------------------------------------------------------------------------
    cs = cases(ctx)
    recs, metas, _ = runbank.run_and_record(ctx, cs, file_layout=True)
    texts = {c[0]: c for c in cs}
    # the layout of every written file: a sentence of PkaFile.tla, both tables list the same groups
    from .. import pkafile
    lay = [(r_["_pkafile"], m_) for r_, m_ in zip(recs, metas) if r_ and "_pkafile" in r_]
    if lay:
        if ctx.thorough() or ctx.seed % 2 == 0:
            pkafile.selftest(ctx, lay[0][0])
        lv = pkafile.validate(ctx, [x[0] for x in lay])
        ctx.extra["pka_files_parsed_as_layout"] = len(lay)
        for inv, idxs in sorted(lv.items()):
            for i_ in idxs[:3]:
                m_ = lay[i_][1]
                msg = f"{inv} violated by the file written for {m_}: line classes {_squash(lay[i_][0]['toks'])}"
                if inv in ("F_Accepted", "F_TablesAgree"):
                    ctx.violation(f"rendering:{inv}:{m_['input'].split(' [')[0]}", msg, {"pdb": texts[m_["input"]][1], "optargs": m_["optargs"]})
                else:
                    ctx.note(f"BEYOND-PROPERTIES (C02; decided by C10 where it is a listed clause): {msg}")
    ngroups = 0
    for m in metas:
        if "exc" in m:
            ctx.violation(f"run:exception:{m['input']}", f"{m}", {"pdb": texts[m["input"]][1], "optargs": m["optargs"]})
        elif m.get("groups", 0) >= 1:
            ctx.nontriv((m["input"], tuple(m["optargs"])))
    for rec in recs:
        if rec:
            ngroups += sum(len(v) for v in rec["G"].values())
    ctx.extra["group_records_checked"] = ngroups
    viol = runbank.validate(ctx, recs, metas, runbank.RUN_INV["C02"])
    for inv, lst in sorted(viol.items()):
        for rec, m in lst:
            detail = ""
            tag = m["input"].split("[")[-1].rstrip("]") if "[" in m["input"] else "default"
            if inv == "C02_SumIdentity":
                offenders = []
                for cname, gl in rec["G"].items():
                    for g in gl:
                        if g["type"] == "ION" or not (g["use"] or g["titr"]) or g["bridged"]:
                            continue
                        s = g["model6"] + g["ev6"] + g["el6"] + sum(d[2] for k in ("sc", "bb", "cb") for d in g[k])
                        if abs(s - g["pka6"]) > 3 + sum(len(g[k]) for k in ("sc", "bb", "cb")):
                            offenders.append((cname, g["label"], g["pka6"] / 1e6, s / 1e6))
                detail = f"; e.g. {offenders[:3]}"
                where = "AVR" if offenders and all(o[0] == "AVR" for o in offenders) else "conformation"
                key = f"sum-identity:{where}:params-{tag}:{m['input'].split(' [')[0]}"
            else:
                key = f"rendering:{inv}:params-{tag}:{m['input'].split(' [')[0]}"
            ctx.violation(key, f"{inv} violated on {m}{detail}",
                          {"pdb": texts[m["input"]][1], "optargs": m["optargs"], "params": PARAMS.get(tag, [None])[0]})
    ctx.sample({"run": metas[0]})
    ctx.sample({"run": metas[-1]})
    # ---- beyond the listed properties: the covalent-coupling rule behind coupling_effects (notes only) ------
    real = []
    # (4DFR is left out: the closure of its two methotrexate systems does not finish in TLC's recursive operators)
    for n in (["3SGB-subset", "1HPX", "3SGB"] if ctx.thorough() else ["3SGB-subset", "1HPX"]):
        r = runner.run(corpus.test_pdb_text(n), ["-q"])
        if r.exc is None:
            real.append((n, r.mol))
    try:
        covcoupling.run(ctx, real)
    except tlc.TLCError as ex:
        # (this part only writes notes: a TLC run that does not finish in its time limit on a loaded machine is a note too)
        ctx.note("BEYOND-PROPERTIES: the covalent-coupling part did not complete: " + str(ex).splitlines()[0][:200])


def replay(ctx, path):
    case = json.load(open(path))
    print(case["what"])
    p = case["payload"]
    optargs = [a for a in p.get("optargs", [])]
    if p.get("params"):
        pf = param_file(p["params"], "replay")
        optargs = [pf if (i > 0 and optargs[i - 1] == "-p") else a for i, a in enumerate(optargs)]
    r = runner.run(p["pdb"], ["-q"] + optargs)
    print("exception:", r.exc)
    if r.mol:
        for g in r.mol.conformations["AVR"].groups:
            s = g.model_pka + g.energy_volume + g.energy_local + sum(d.value for k in g.determinants for d in g.determinants[k])
            print(g.label, round(g.pka_value, 3), "sum of listed terms:", round(s, 3))
