"""C12 - incomplete structures degrade gracefully.
Spec: tla/Truncation.tla (residue templates, subsets of removed atoms, the site remains iff its defining atom
      does), tla/Trace_Run.tla (DeclCensus on the truncated input).

M  MC_Truncation: for every template and subset the lemmas of the declarative face (monotone; only the defining
   atom matters).
G  every emitted (template, removed atoms) is concretised by deleting those atoms from a real residue of that type
   inside its real neighbourhood (five-residue window); run.single must complete, and TLC compares the reported
   groups with the declared census of the truncated input.
T  random atom / side-chain / backbone / whole-residue deletions in full structures incl. ligands and ions;
   inputs without atom records or with an unknown extension must raise ValueError.
"""
import json
import random

from .. import corpus, runbank, runner, tlc

C = corpus


def find_windows(ctx):
    """For each template a real residue (all atoms present) with two residues on either side."""
    import re
    spec = open(tlc.TLA_DIR + "/Truncation.tla").read()
    tm = {}
    for m in re.finditer(r"(\w+) \|-> <<([^>]*)>>", spec):
        if m.group(1) in ("ASP", "GLU", "HIS", "CYS", "TYR", "LYS", "ARG", "SER", "ASN", "TRP", "GLY", "CTERM") and m.group(1) not in tm:
            tm[m.group(1)] = [x.strip().strip('"') for x in m.group(2).split(",")]
    wins = {}
    for src in ("1HPX", "3SGB", "1FTJ-Chain-A"):
        blocks = [b for b in C.residue_blocks(C.atom_lines(src)) if b[0] != "TER" and b[1][0].startswith("ATOM")]
        for k in range(2, len(blocks) - 2):
            key, lines = blocks[k]
            resn = key[3]
            if resn in tm and resn not in wins:
                names = {ln[12:16].strip() for ln in lines}
                same_chain = all(blocks[j][0][0] == key[0] for j in range(k - 2, k + 3))
                if set(tm[resn]) <= names and same_chain and "OXT" not in names:
                    wins[resn] = (src, [ln for j in range(k - 2, k + 3) for ln in blocks[j][1]], key)
    # the C-terminal residue of a chain (carries OXT) with the two residues before it
    blocks = [b for b in C.residue_blocks(C.atom_lines("1HPX")) if b[0] != "TER" and b[1][0].startswith("ATOM") and b[0][0] == "A"]
    if blocks and any(ln[12:16].strip() == "OXT" for ln in blocks[-1][1]):
        # ... preceded by a stretch of the same chain that holds acids (Asp 25, 29, 30): terms that are summed over the
        # acids of a structure (backbone reorganisation) are exercised too
        acid = [ln for b in blocks[23:31] for ln in b[1]]
        wins["CTERM"] = ("1HPX", acid + [C.TER] + [ln for b in blocks[-3:] for ln in b[1]], blocks[-1][0])
    return wins


def run(ctx):
    ctx.rule = ("cases = (template, removed atom subset) replayed in a real five-residue window, random deletions in full "
                "structures, and rejected inputs; non-trivial = at least one atom removed; distinct = (structure, removed set)")
    ctx.assumptions += ["valid structure = no duplicated atoms / coincident positions (deletions only)"]
    r = tlc.run("MC_Truncation", "MC_Truncation_t.cfg" if ctx.thorough() else "MC_Truncation.cfg", timeout=1200)
    ctx.add_tlc(r, "truncation lemmas over all templates and subsets")
    if not r.ok:
        raise tlc.TLCError("spec-level failure in MC_Truncation:\n" + r.stdout[-3000:])
    r = tlc.run("MC_Truncation", "Gen_Truncation_t.cfg" if ctx.thorough() else "Gen_Truncation.cfg", workers=1, timeout=1200)
    ctx.add_tlc(r, "subset generator")
    wins = find_windows(ctx)
    ctx.extra["templates_with_real_window"] = sorted(wins)
    rng = random.Random(ctx.seed)
    emitted = r.printed
    if not ctx.thorough():
        small = [c for c in emitted if len(c["removed"]) <= 2]
        rest = [c for c in emitted if len(c["removed"]) > 2]
        emitted = small + rng.sample(rest, min(len(rest), 500))
    cases = []
    for c in emitted:
        if c["t"] not in wins:
            continue
        src, lines, key = wins[c["t"]]
        rm = set(c["removed"])
        new = [ln for ln in lines if not (C.is_atom(ln) and (ln[21], ln[22:26], ln[26], ln[17:20]) == key and ln[12:16].strip() in rm)]
        cases.append((f"{c['t']}-{'+'.join(sorted(rm))}", C.join(new + [C.TER]), []))
    # ---- T: random deletions in full structures ---------------------------------------------
    fulls = ["1HPX", "3SGB-subset", "sample-issue-140"] + (["3SGB", "1FTJ-Chain-A", "4DFR"] if ctx.thorough() else [])
    nrand = 40 if ctx.thorough() else 8
    for name in fulls:
        lines = C.body(C.test_pdb_text(name))
        atoms = [i for i, ln in enumerate(lines) if C.is_atom(ln)]
        for k in range(nrand):
            mode = k % 4
            if mode == 0:       # random single atoms (2 %)
                kill = set(rng.sample(atoms, max(1, len(atoms) // 50)))
            elif mode == 1:     # all side-chain atoms of random residues
                res = rng.sample(sorted({C.resid(lines[i]) for i in atoms}), 5)
                kill = {i for i in atoms if C.resid(lines[i]) in res and lines[i][12:16].strip() not in ("N", "CA", "C", "O")}
            elif mode == 2:     # backbone atoms of random residues
                res = rng.sample(sorted({C.resid(lines[i]) for i in atoms}), 5)
                kill = {i for i in atoms if C.resid(lines[i]) in res and lines[i][12:16].strip() in ("N", "C", "O", "CA")[: 1 + k % 4]}
            else:               # whole residues and ligand atoms
                res = rng.sample(sorted({C.resid(lines[i]) for i in atoms}), 4)
                kill = {i for i in atoms if C.resid(lines[i]) in res}
                het = [i for i in atoms if lines[i].startswith("HETATM")]
                kill |= set(rng.sample(het, min(len(het), 3)))
            new = [ln for i, ln in enumerate(lines) if i not in kill]
            cases.append((f"{name}-del{mode}-{k}", C.join(new), []))
    # ligand truncations: every proper subset of the small kit molecules; single / adjacent-pair / random deletions in
    # the ligands of the test structures; and truncated proteins with --protonate-all (every atom is protonated)
    from .. import ligandkit as K
    import itertools
    base = C.chain_lines("1HPX", "A", 40, 30)
    cx, cy, cz = C.centroid(base)
    org = (cx + 14000, cy + 2000, cz)
    for name in sorted(K.molecules()):
        ll = K.lines(name, org)
        if len(ll) > 6 and not ctx.thorough():
            continue
        subsets = [s for n in range(1, len(ll)) for s in itertools.combinations(range(len(ll)), n)]
        if len(subsets) > 40:
            subsets = rng.sample(subsets, min(len(subsets), 40 if not ctx.thorough() else 200))
        for sub in subsets:
            kept = [ln for i, ln in enumerate(ll) if i not in sub]
            cases.append((f"kit-{name}-minus-{'+'.join(ll[i][12:16].strip() for i in sub)}", C.join(base + [C.TER] + kept), []))
    for src, resn in (("1HPX", "KNI"), ("4DFR", "MTX"), ("1FTJ-Chain-A", "GLU")):
        lines = C.body(C.test_pdb_text(src))
        lig = [i for i, ln in enumerate(lines) if ln.startswith("HETATM") and ln[17:20] == resn]
        if not lig:
            continue
        ring = lines if src != "4DFR" else [ln for ln in lines if not (C.is_atom(ln) and ln[21] == "B")]
        picks = []
        for k in range(24 if ctx.thorough() else 6):
            n = rng.choice([1, 2, 2, 3, 5])
            a0 = rng.randrange(len(lig))
            picks.append(set(lig[a0:a0 + n]) | (set(rng.sample(lig, 2)) if k % 3 == 0 else set()))
        for k, kill in enumerate(picks):
            cases.append((f"{src}-{resn}-del-{k}", C.join([ln for i, ln in enumerate(lines) if i not in kill]), []))
    pa = []
    for name in (["1HPX"] if not ctx.thorough() else ["1HPX", "3SGB-subset", "1FTJ-Chain-A"]):
        lines = C.body(C.test_pdb_text(name))
        atoms = [i for i, ln in enumerate(lines) if C.is_atom(ln)]
        for k in range(30 if ctx.thorough() else 8):
            kill = set(rng.sample(atoms, rng.randrange(1, 30)))
            pa.append((f"{name}-protonate-all-del-{k}", C.join([ln for i, ln in enumerate(lines) if i not in kill]), ["--protonate-all"]))
    cases += pa
    # ensembles in which ONE model is truncated: a whole residue (first, inner, last), the terminal oxygen, a side chain
    ens = [ln for ln in C.chain_lines("1HPX", "A", 0, 12) + [C.TER] + C.chain_lines("1HPX", "B", 0, 8) + [C.TER]]
    eids = []
    for ln in ens:
        if C.is_atom(ln) and C.resid(ln) not in eids:
            eids.append(C.resid(ln))
    cuts = [("first-residue", lambda ln: C.resid(ln) == eids[0]), ("inner-residue", lambda ln: C.resid(ln) == eids[5]),
            ("last-residue-of-A", lambda ln: C.resid(ln) == eids[11]), ("OXT-of-A", lambda ln: ln[21] == "A" and ln[12:16].strip() == "OXT"),
            ("first-residue-of-B", lambda ln: C.resid(ln) == eids[12]),
            ("side-chains", lambda ln: ln[17:20] in ("LYS", "ARG", "GLU", "ASP") and ln[12:16].strip() not in ("N", "CA", "C", "O", "CB", "OXT"))]
    full_ = "\n".join(ens)
    for tag, pred in cuts if ctx.thorough() else cuts[:: 1]:
        cut_ = "\n".join(ln for ln in ens if not (C.is_atom(ln) and pred(ln)))
        for order_, (m1, m2) in (("cut-second", (full_, cut_)), ("cut-first", (cut_, full_))):
            cases.append((f"ensemble-{tag}-{order_}", f"MODEL        1\n{m1}\nENDMDL\nMODEL        2\n{m2}\nENDMDL\nEND\n", []))
    recs, metas, _ = runbank.run_and_record(ctx, cases)
    texts = {c[0]: c[1] for c in cases}
    for m in metas:
        if "exc" in m:
            what = m["exc"].split("(")[0]
            tag = m["input"].split("-")[0]
            ctx.violation(f"truncation:exception:{what}:{tag}", f"{m['input']}: {m['exc']}", {"pdb": texts[m["input"]]})
        else:
            ctx.nontriv(m["input"])
    viol = runbank.validate(ctx, recs, metas, ["C01_Census", "C01_ExactlyOnce"], "truncated inputs")
    seen = set()
    for inv, lst in sorted(viol.items()):
        for rec, m in lst:
            key = f"truncation:{inv}:{m['input'].split('-')[0]}"
            if key in seen:
                continue
            seen.add(key)
            ctx.violation(key, f"{inv} violated on {m}", {"pdb": texts[m["input"]]})
    # ---- rejected inputs ---------------------------------------------------------------------
    rejects = [("empty.pdb", ""), ("remarks.pdb", "REMARK only\nEND\n"),
               ("water.pdb", C.join([C.ion_line("HOH", (0, 0, 0))]).replace(" HO ", " O  ")),
               ("x.xyz", C.test_pdb_text("3SGB-subset")), ("x.pqr", C.test_pdb_text("3SGB-subset")),
               ("noext", C.test_pdb_text("3SGB-subset")), ("x.PDB", C.test_pdb_text("3SGB-subset"))]
    for fname, text in rejects:
        rr = runner.run(text, ["-q"], name=fname, write=False)
        ctx.count()
        ctx.nontriv(("reject", fname))
        if fname == "x.PDB":
            if rr.exc is not None:
                ctx.violation("reject:upper-case-extension", f"{fname}: {rr.exc!r}", {"name": fname})
            continue
        if not isinstance(rr.exc, ValueError):
            ctx.violation(f"reject:{fname}", f"input {fname!r} must be rejected with ValueError, got {rr.exc!r}"
                          if rr.exc is not None else f"input {fname!r} was accepted", {"name": fname, "pdb": text[:2000]})
    ctx.sample({"case": cases[0][0], "lines": cases[0][1].splitlines()[:6]})
    ctx.extra["runs"] = len(cases)


def replay(ctx, path):
    case = json.load(open(path))
    print(case["what"])
    p = case["payload"]
    if "pdb" in p and "name" not in p:
        r = runner.run(p["pdb"], ["-q"], write=False)
        print("exception:", repr(r.exc))
