"""C11 - covalent bonds = pairwise distance rule.  Spec: tla/CellList.tla (+ MC_CellList, Trace_CellList).

M  stepwise cell-list mechanism (insert, within-cell, 13 neighbour offsets) vs the all-pairs
   declaration for two/three atoms straddling every cell boundary and threshold; half-space cover;
   locality lemma; a self-test with one offset removed must be refuted.
G  every TLC-emitted placement (positions, elements, order, expected bonds/bridges) is built from real
   Atom objects and given to the real BondMaker.find_bonds_for_atoms_using_boxes, at the origin and
   shifted far away / to negative coordinates.
T  (a) dense random clouds: the real bond sets are checked by TLC against AllPairsBonds
   (Trace_CellList); (b) the real traversal (calls of find_bonds_for_atoms /
   find_bonds_for_atoms_disjoint recorded by wrappers) is validated against the coverage obligations
   of the spec; (c) bridged cysteines of real structures are non-titratable with pKa 99.99.
"""
import json
import math
import os
import random

from .. import tlc, pdbio, core, runner

ELN = {"C": "C", "H": "H", "S": "S", "F": "F", "N": "N", "O": "O"}


def thresholds():
    import propka.bonds as pb
    return {"ThH": round(100 * pb.HYDROGEN_DISTANCE), "ThD": round(100 * pb.DEFAULT_DISTANCE),
            "ThSS": round(100 * pb.DISULFIDE_DISTANCE), "ThFF": round(100 * pb.FLUORIDE_DISTANCE)}


def mk_atoms(pos, el, order, shift=(0, 0, 0), same_serial=False):
    """pos: {id: (x,y,z) centi-A}; returns list of real Atom objects in 'order' and id map."""
    from propka.atom import Atom
    atoms = []
    for i in order:
        x, y, z = (10 * (pos[i][j] + shift[j]) for j in range(3))
        name = {"C": "C1", "H": "H1", "S": "S1", "F": "F1", "N": "N1", "O": "O1", "SE": "SE1", "I": "I1"}[el[i]]
        # labels do not enter the distance rule: in the replay with equal serials the atoms also sit in different chains
        # and residues (a ligand bound to another chain, fragments of one chain filed under two identifiers)
        a = Atom(pdbio.atom_line("HETATM", serial=(17 if same_serial else i), name=name, resn=("LIG" if not same_serial else "LG%d" % (i % 3)),
                                 chain=("A" if not same_serial else "AB C"[i % 4]), num=(1 if not same_serial else i), x=x, y=y, z=z,
                                 elem=el[i]))
        a.pkv_id = i
        atoms.append(a)
    return atoms


def real_bonds(atoms):
    bonds = set()
    asym = []
    selfb = []
    for a in atoms:
        for b in a.bonded_atoms:
            if b is a:
                selfb.append(a.pkv_id)
            bonds.add(frozenset((a.pkv_id, b.pkv_id)))
            if a not in b.bonded_atoms:
                asym.append((a.pkv_id, b.pkv_id))
    return bonds, asym, selfb


def cfg_with_thresholds(src, dst, th):
    txt = open(os.path.join(tlc.TLA_DIR, src)).read()
    for k, v in th.items():
        import re
        txt = re.sub(rf"^\s*{k} = \d+", f"  {k} = {v}", txt, flags=re.M)
    open(dst, "w").write(txt)
    return dst


def direction_class(pos, B=251):
    c = [tuple(math.floor(v / B) for v in pos[i]) for i in sorted(pos)]
    return tuple(max(-2, min(2, c[1][j] - c[0][j])) for j in range(3))


def run(ctx):
    import propka.bonds as pb
    from propka.bonds import BondMaker
    th = thresholds()
    ctx.extra["thresholds_centiA_from_working_tree"] = th
    ctx.rule = ("cases = atom placements (2-3 atoms, elements, order) emitted by TLC with the all-pairs bond set, "
                "x 3 rigid shifts; plus random dense clouds; non-trivial = distinct placement with at least one pair within "
                "the largest threshold + 0.02 A or straddling a cell boundary")
    wd = tlc.workdir("c11")
    # ---- M ---------------------------------------------------------------------------------
    cfg = cfg_with_thresholds("MC_CellList_t.cfg" if ctx.thorough() else "MC_CellList.cfg", os.path.join(wd, "mc.cfg"), th)
    r = tlc.run("MC_CellList", cfg, timeout=3000)
    ctx.add_tlc(r, "cell-list mechanism vs all-pairs declaration")
    if not r.ok:
        raise tlc.TLCError("spec-level failure in MC_CellList:\n" + r.stdout[-3000:])
    if ctx.thorough():
        cfg = cfg_with_thresholds("MC_CellList_t3.cfg", os.path.join(wd, "mc3.cfg"), th)
        r = tlc.run("MC_CellList", cfg, timeout=3000)
        ctx.add_tlc(r, "three atoms, both orders")
        if not r.ok:
            raise tlc.TLCError("spec-level failure in MC_CellList (3 atoms):\n" + r.stdout[-3000:])
        cfg = cfg_with_thresholds("MC_CellList_bad.cfg", os.path.join(wd, "bad.cfg"), th)
        r = tlc.run("MC_CellList", cfg, timeout=3000)
        ctx.extra["selftest_missing_offset_refuted"] = r.invariant_violated == "BondsAreAllPairs"
        if r.invariant_violated != "BondsAreAllPairs":
            raise tlc.TLCError("self-test failed: a cell list with a missing offset was not refuted")
    # ---- G ---------------------------------------------------------------------------------
    cfg = cfg_with_thresholds("Gen_CellList_t.cfg" if ctx.thorough() else ("Gen_CellList.cfg", "Gen_CellList_b.cfg")[ctx.seed % 2],
                              os.path.join(wd, "gen.cfg"), th)
    r = tlc.run("MC_CellList", cfg, workers=1, timeout=3000)
    ctx.add_tlc(r, "placement generator")
    if not r.ok:
        raise tlc.TLCError("generator failed:\n" + r.stdout[-3000:])
    # exact ties (a pair exactly at a threshold is not bonded): coordinates and shifts are multiples of 0.5 A, exact in binary
    cfg = cfg_with_thresholds("Gen_CellList_ties.cfg", os.path.join(wd, "ties.cfg"), th)
    rt = tlc.run("MC_CellList", cfg, workers=1, timeout=3000)
    ctx.add_tlc(rt, "placement generator: pairs exactly on a threshold")
    ties = list(rt.printed)
    for c in ties:
        c["ties"] = True
    bm = BondMaker()
    rng = random.Random(ctx.seed)
    shifts = [(0, 0, 0), (899000 - 899000 % 251 + 17, -(99000 - 99000 % 251) - 3, 7), (-37, 251 * 11, -251 * 390 + 250)]
    tie_shifts = [(0, 0, 0), (-500, 1000, 250), (70000, -3050, 12800)]
    bad = {}
    dirs = set()
    for c in r.printed + ties:
        pos = {i + 1: tuple(p) for i, p in enumerate(c["pos"])}
        el = {i + 1: e for i, e in enumerate(c["el"])}
        exp = {frozenset(b) for b in c["bonds"]}
        expbr = set(c["bridged"])
        d = direction_class(pos)
        dirs.add(d)
        near = any(abs(v) <= 252 for v in (pos[2][j] - pos[1][j] for j in range(3)))
        for si_, sh in enumerate(tie_shifts if c.get("ties") else shifts):
            # serial numbers are not unique in real files (they restart per chain or model): the last shift uses equal ones
            atoms = mk_atoms(pos, el, c["order"], sh, same_serial=(si_ == 2))
            ctx.count()
            try:
                bm.find_bonds_for_atoms_using_boxes(atoms)
                got, asym, selfb = real_bonds(atoms)
                gotbr = {a.pkv_id for a in atoms if a.cysteine_bridge}
            except Exception as ex:  # noqa
                bad.setdefault("bondmaker:exception", (pos, el, c["order"], sh, repr(ex)))
                continue
            if got != exp:
                kind = "missing" if exp - got else "spurious"
                bad.setdefault(f"bondmaker:{kind}:{'exact-tie:' if c.get('ties') else ''}dir{d}:{''.join(sorted(el.values()))}",
                               (pos, el, c["order"], sh, f"bonds {sorted(map(sorted, got))} expected {sorted(map(sorted, exp))}"))
            if asym or selfb:
                bad.setdefault("bondmaker:asymmetric-or-self", (pos, el, c["order"], sh, f"asym={asym} self={selfb}"))
            if gotbr != expbr:
                bad.setdefault(f"bondmaker:bridge-flag:{''.join(sorted(el.values()))}",
                               (pos, el, c["order"], sh, f"bridged {sorted(gotbr)} expected {sorted(expbr)}"))
        if near:
            ctx.nontriv((tuple(sorted(pos.items())), tuple(sorted(el.items())), tuple(c["order"])))
        if exp and len(ctx.samples) < 3 and d != (0, 0, 0):
            ctx.sample({"pos_centiA": pos, "el": el, "order": c["order"], "expected_bonds": sorted(map(sorted, exp))})
    ctx.traces += len(r.printed)
    ctx.extra["neighbour_direction_classes_exercised"] = len(dirs)
    for k, (pos, el, order, sh, msg) in sorted(bad.items()):
        ctx.violation(k, f"atoms {pos} {el} order {order} shift {sh}: {msg}",
                      {"pos": {str(i): list(p) for i, p in pos.items()}, "el": {str(i): e for i, e in el.items()},
                       "order": order, "shift": list(sh)})

    # ---- T(a): dense clouds, verdict by TLC ----------------------------------------------------
    nclouds = 60 if ctx.thorough() else 16
    clouds = []
    recs = []
    for ci in range(nclouds):
        n = rng.choice([12, 25, 40])
        side = rng.choice([300, 520, 800])
        org = [rng.randrange(-90000, 900000) for _ in range(3)]
        pos, el = {}, {}
        for i in range(1, n + 1):
            pos[i] = tuple(org[j] + rng.randrange(0, side) for j in range(3))
            el[i] = rng.choice(list("CCCHHSSFNOI") + ["SE"])
        # knife-edge filter (exact, integer): drop clouds with a pair exactly on a threshold
        ke = False
        ths = {v * v for v in th.values()}
        ids = sorted(pos)
        for a in ids:
            for b in ids:
                if a < b and sum((pos[a][j] - pos[b][j]) ** 2 for j in range(3)) in ths:
                    ke = True
        if ke or len(set(pos.values())) < n:
            ctx.extra["knife_edge_skipped"] = ctx.extra.get("knife_edge_skipped", 0) + 1
            continue
        order = ids[:]
        rng.shuffle(order)
        atoms = mk_atoms(pos, {i: ("C" if el[i] in "NO" else el[i]) for i in ids}, order)
        for a, i in zip(atoms, order):
            a.element = el[i]
        events = record_traversal(bm, atoms)
        got, asym, selfb = real_bonds(atoms)
        recs.append({"pos": [list(pos[i]) for i in ids], "el": [("C" if el[i] in "NO" else el[i]) for i in ids],
                     "bonds": sorted(sorted(b) for b in got), "bridged": sorted(a.pkv_id for a in atoms if a.cysteine_bridge),
                     "asym": len(asym) + len(selfb), "ev": events})
        clouds.append((pos, el, order))
    tf = os.path.join(wd, "clouds.json")
    json.dump(recs, open(tf, "w"))
    cfg = cfg_with_thresholds("Trace_CellList.cfg", os.path.join(wd, "trace.cfg"), th)
    r = tlc.run("Trace_CellList", cfg, timeout=1800, env={"TRACE_FILE": tf})
    ctx.add_tlc(r, "clouds: real bond sets and real traversal vs spec")
    ctx.count(len(recs))
    ctx.traces += len(recs)
    for rec in recs:
        ctx.nontriv(("cloud", tuple(map(tuple, rec["pos"]))))
    if r.invariant_violated:
        import re
        m = re.search(r"\bi = (\d+)", r.stdout)
        i = int(m.group(1)) - 1 if m else 0
        ctx.violation(f"cloud:{r.invariant_violated}", f"cloud {i} ({len(recs[i]['pos'])} atoms) violates {r.invariant_violated}",
                      {"cloud": recs[i]})
    elif not r.ok:
        raise tlc.TLCError("trace validation failed:\n" + r.stdout[-3000:])
    ctx.extra["traversal_events_validated"] = sum(len(x["ev"]) for x in recs)
    # ---- T(c): a bridged cysteine is not titrated - whatever the options say ------------------------------------
    from .. import corpus as C, runbank
    pair, _p, _q = C.disulfide_pair()
    ss = C.chain_lines("3SGB", "E", 12, 4) + [C.TER] + C.rename_chain(C.chain_lines("3SGB", "E", 32, 4), "E", "F") + [C.TER]
    same = [C.set_resid(ln, num=42) if C.is_atom(ln) else ln for ln in pair]
    cases = [("disulfide-same-number-E42-F42", C.join(same), []), ("disulfide-same-number-E42-F42 -i", C.join(same), ["-i", "E:42,F:42"])]
    for nm, ls, lst in (("disulfide-pair", pair, "E:42,F:58"), ("frag-3SGB-disulfide", ss, "E:42,F:58"),
                        ("frag-3SGB-disulfide", ss, "E:42"), ("frag-3SGB-disulfide", ss, "E:41,E:42,E:43,F:57,F:58,F:59")):
        text = C.join(ls)
        if (nm, text, []) not in cases:
            cases.append((nm, text, []))
            cases.append((nm + " --protonate-all", text, ["--protonate-all"]))
            cases.append((nm + " -d", text, ["-d"]))
        cases.append((f"{nm} -i {lst}", text, ["-i", lst]))
    if ctx.thorough():
        cases.append(("3SGB -i all-cys", C.test_pdb_text("3SGB"), ["-i", ",".join(
            sorted({f"{ln[21]}:{int(ln[22:26])}" for ln in C.test_pdb_text("3SGB").splitlines() if C.is_atom(ln) and ln[17:20] == "CYS"}))]))
    rrecs, metas, _ = runbank.run_and_record(ctx, cases)
    for m, c in zip(metas, cases):
        if "exc" in m:
            ctx.violation(f"bridge-run:exception:{c[0]}", f"{m}", {"pdb": c[1], "optargs": c[2]})
        else:
            ctx.nontriv(("bridge-run", c[0]))
    # ---- T(d): the bond set of full runs - all atoms, kept input hydrogens too - is the pairwise rule ------------------
    from . import c07
    brecs, bmeta = [], []
    frag = C.fragment("3SGB", "E", 0, 25)
    hfrag = c07.with_own_hydrogens(frag)
    for nm, text, opts in [("frag-3SGB-E0+25", frag, ["-q"]), ("disulfide-pair", C.join(pair), ["-q"])] + \
            ([("frag-3SGB-E0+25 +own-hydrogens -k", hfrag, ["-q", "-k"])] if hfrag else []):
        rb_ = runner.run(text, opts, write=False)
        ctx.count()
        if rb_.exc is not None:
            ctx.violation(f"bond-run:exception:{nm}", repr(rb_.exc), {"pdb": text, "optargs": opts[1:]})
            continue
        conf = rb_.mol.conformations[rb_.mol.conformation_names[0]]
        atoms = list(conf.atoms)
        ids = {id(a): k + 1 for k, a in enumerate(atoms)}
        x0 = min(a.x for a in atoms); y0 = min(a.y for a in atoms); z0 = min(a.z for a in atoms)
        pos = [[int(round((a.x - x0) * 1000)), int(round((a.y - y0) * 1000)), int(round((a.z - z0) * 1000))] for a in atoms]
        bonds = sorted({tuple(sorted((ids[id(a)], ids[id(b)]))) for a in atoms for b in a.bonded_atoms if id(b) in ids})
        brecs.append({"pos": pos, "el": [a.element.upper() if len(a.element) == 1 else a.element for a in atoms], "bonds": [list(b) for b in bonds]})
        bmeta.append({"input": nm, "pdb": text, "optargs": opts[1:], "atoms": len(atoms), "bonds": len(bonds)})
        ctx.nontriv(("bond-run", nm))
    if brecs:
        tfb = os.path.join(wd, "bondsets.json")
        json.dump(brecs, open(tfb, "w"))
        resb, bviol = tlc.trace_check("Trace_BondSet", ["B_AllPairs", "B_Irreflexive"], tfb,
                                      constants={k_: 10 * v_ for k_, v_ in th.items()}, timeout=1800)
        ctx.add_tlc(resb, "bond sets of full runs vs the pairwise rule")
        ctx.traces += len(brecs)
        for inv, idxs in sorted(bviol.items()):
            for i_ in idxs[:2]:
                m_ = bmeta[i_]
                ctx.violation(f"bond-run:{inv}:{'keep-protons' if '-k' in m_['optargs'] else 'default'}",
                              f"{inv}: the {m_['bonds']} bonds among the {m_['atoms']} atoms of {m_['input']} are not the pairwise rule",
                              {"pdb": m_["pdb"], "optargs": m_["optargs"]})
    bv = runbank.validate(ctx, rrecs, metas, ["C01_Bridge"], "bridged cysteines of full runs")
    texts = {c[0]: c for c in cases}
    for inv, lst in sorted(bv.items()):
        for rec, m in lst[:3]:
            ctx.violation(f"bridge-run:titrated:{m['input'].split(' -')[0]}:{' '.join(m['optargs'][:1]) or 'default'}",
                          f"a bridged cysteine titrates (or is not 99.99) in {m}", {"pdb": texts[m["input"]][1], "optargs": m["optargs"]})


def record_traversal(bm, atoms):
    """Run the real cell list on atoms while recording its calls of the two pair loops.

    Events: ["W", [ids]] for find_bonds_for_atoms(list) and ["A", [ids1], [ids2]] for
    find_bonds_for_atoms_disjoint.  If the implementation does not use these helpers the event list
    is empty and only the final bond set is judged (model drift, not a violation).
    """
    events = []
    w0 = getattr(bm, "find_bonds_for_atoms", None)
    a0 = getattr(bm, "find_bonds_for_atoms_disjoint", None)
    if w0 is None or a0 is None:
        bm.find_bonds_for_atoms_using_boxes(atoms)
        return events

    def w(lst):
        events.append(["W", [a.pkv_id for a in lst]])
        return w0(lst)

    def a(l1, l2):
        events.append(["A", [x.pkv_id for x in l1], [x.pkv_id for x in l2]])
        return a0(l1, l2)
    bm.find_bonds_for_atoms = w
    bm.find_bonds_for_atoms_disjoint = a
    try:
        bm.find_bonds_for_atoms_using_boxes(atoms)
    finally:
        del bm.find_bonds_for_atoms
        del bm.find_bonds_for_atoms_disjoint
    return events


def replay(ctx, path):
    from propka.bonds import BondMaker
    case = json.load(open(path))
    p = case["payload"]
    if "pos" in p:
        pos = {int(i): tuple(v) for i, v in p["pos"].items()}
        el = {int(i): v for i, v in p["el"].items()}
        for same in (False, True):
            atoms = mk_atoms(pos, el, p["order"], tuple(p["shift"]), same_serial=same)
            BondMaker().find_bonds_for_atoms_using_boxes(atoms)
            print("equal serials:" if same else "distinct serials:", "bonds:", sorted(map(sorted, real_bonds(atoms)[0])),
                  "bridged:", [a.pkv_id for a in atoms if a.cysteine_bridge])
    print(case["what"])
