"""C20 - rotation about an axis.  Spec: tla/Rotation.tla (+ MC_Rotation, Trace_Rotation).

M  TLC: the closed form (declarative face) satisfies the statement's three clauses on the whole
   rational family; the code-shaped five-step mechanism equals it on axes with integer norms.
G  every TLC-emitted (angle, axis, vector, exact result) is replayed through the real
   rotate_vector_around_an_axis and compared at 1e-9.
T  results of the real function for generic angles/axes are quantised and checked by TLC
   (Trace_Rotation) against the three clauses with explicit integer tolerances.
"""
import json
import math
import os
import random

from .. import tlc


def sign_class(n):
    return "".join("+" if c > 0 else "-" if c < 0 else "0" for c in n)


def run(ctx):
    from propka.vector_algebra import Vector, rotate_vector_around_an_axis
    ctx.rule = ("cases = (angle, axis, vector) triples of the rational family emitted by TLC with the exact Rodrigues result; "
                "non-trivial = distinct triple whose vector is not parallel to the axis and whose angle is not 0")
    ctx.assumptions += ["closed form checked where cos(theta) and sin(theta)/|axis| are rational; generic angles are "
                        "checked through the three invariant clauses after quantisation to 1/100 (tolerances in Trace_Rotation)",
                        "axis components are 0 or at least 1e-150 in magnitude (their squares do not underflow); the caller "
                        "passes differences of 3-decimal coordinates"]
    # ---- M ---------------------------------------------------------------------------------
    r = tlc.run("MC_Rotation", "MC_Rotation.cfg" if ctx.thorough() else "MC_Rotation_q.cfg", timeout=1800)
    ctx.add_tlc(r, "declarative clauses + mechanism on the rational family")
    if not r.ok:
        raise tlc.TLCError("spec-level failure in MC_Rotation:\n" + r.stdout[-3000:])
    if ctx.thorough():
        # binding self-test: the mechanism without the -z alignment branch must be refuted by TLC
        r2 = tlc.run("MC_Rotation", "MC_Rotation_noflip.cfg", timeout=1800)
        ctx.extra["selftest_mechanism_without_negz_branch_refuted"] = (r2.invariant_violated == "MechAgrees")
        if r2.invariant_violated != "MechAgrees":
            raise tlc.TLCError("self-test failed: the un-repaired mechanism was not refuted")

    # ---- G ---------------------------------------------------------------------------------
    cfg = "Gen_Rotation_t.cfg" if ctx.thorough() else "Gen_Rotation.cfg"
    r = tlc.run("MC_Rotation", cfg, workers=1, timeout=3600)
    ctx.add_tlc(r, "case generator (exact results)")
    if not r.ok:
        raise tlc.TLCError("generator failed:\n" + r.stdout[-3000:])
    bad = {}
    classes = set()
    ncase = 0
    for c in r.printed:
        a, n, v, rr, d = c["a"], c["n"], c["v"], c["r"], c["d"]
        N = n[0] ** 2 + n[1] ** 2 + n[2] ** 2
        sin_t = a["sn"] / a["sd"] * math.sqrt(N)
        cos_t = a["cn"] / a["cd"]
        theta = math.atan2(sin_t, cos_t)
        ctx.count()
        try:
            out = rotate_vector_around_an_axis(theta, Vector(n[0], n[1], n[2]), Vector(v[0], v[1], v[2]))
            got = (out.x, out.y, out.z)
            err = max(abs(got[i] - rr[i] / d) for i in range(3))
        except Exception as ex:  # noqa
            got, err = repr(ex), 1.0
        classes.add((sign_class(n), a["cn"], a["cd"], a["sn"] > 0))
        cross = (n[1] * v[2] - n[2] * v[1], n[2] * v[0] - n[0] * v[2], n[0] * v[1] - n[1] * v[0])
        if any(cross) and not (a["cn"] == a["cd"]):
            ctx.nontriv((a["cn"], a["cd"], a["sn"], a["sd"], tuple(n), tuple(v)))
        if len(ctx.samples) < 3 and any(cross) and a["sn"] != 0 and 0 in n:
            ctx.sample({"theta": theta, "axis": n, "vec": v, "expected": [x / d for x in rr], "got": got})
        if err > 1e-9:
            key = f"rodrigues:axis{sign_class(n)}"
            if key not in bad:
                bad[key] = {"theta": theta, "axis": n, "vec": v, "expected": [x / d for x in rr], "got": got}
        # the rotation is linear in the vector and does not depend on the length of the axis: the same exact result,
        # scaled, for short / long axes and vectors and for vectors almost parallel to the axis (R n = n)
        ncase += 1
        if any(cross) and ncase % 11 == ctx.seed % 11:
            exact = [x / d for x in rr]
            for sa, sv, par in ((1e-4, 1.0, 0.0), (1e3, 1e-4, 0.0), (1.0, 1e4, 0.0), (1.0, 1e-3, 1.0), (0.5, 1e-5, 2.0)):
                vv = [par * n[i] + sv * v[i] for i in range(3)]
                want = [par * n[i] + sv * exact[i] for i in range(3)]
                ctx.count()
                try:
                    o2 = rotate_vector_around_an_axis(theta, Vector(sa * n[0], sa * n[1], sa * n[2]), Vector(*vv))
                    g2 = (o2.x, o2.y, o2.z)
                    e2 = max(abs(g2[i] - want[i]) for i in range(3))
                except Exception as ex:  # noqa
                    g2, e2 = repr(ex), 1.0
                mag = max(1e-300, max(abs(x) for x in want))
                perp = sv * max(abs(x) for x in v)
                if e2 > 1e-9 * max(mag, perp) and e2 > 1e-7 * perp:
                    kind = "near-parallel" if par else ("short-axis" if sa < 1e-2 else "scaled-vector")
                    key = f"rodrigues-scale:{kind}"
                    if key not in bad:
                        bad[key] = {"theta": theta, "axis": [sa * c0 for c0 in n], "vec": vv, "expected": want, "got": g2}
    # axes a rounding error away from a coordinate axis or plane (the case splits compare components with 0, so an
    # axis with a component of 1e-9 takes the generic branch at the edge of its domain): the result must agree with
    # the closed form for the exact axis, evaluated in floating point, to well within the conditioning of acos/asin
    def rodrigues(theta, n, v):
        nn = math.sqrt(sum(c * c for c in n))
        u = [c / nn for c in n]
        d = sum(a_ * b_ for a_, b_ in zip(u, v))
        cr = (u[1] * v[2] - u[2] * v[1], u[2] * v[0] - u[0] * v[2], u[0] * v[1] - u[1] * v[0])
        ct, st = math.cos(theta), math.sin(theta)
        return [v[i] * ct + cr[i] * st + u[i] * d * (1 - ct) for i in range(3)]
    near = []
    for eps in (1e-9, -1e-9, 1e-12, 3e-7, -2e-5, 1e-15, -1e-100):
        for big in (1.0, -1.0, -2.5):
            near += [(eps, 0.0, big), (0.0, eps, big), (eps, -2 * eps, big), (big, eps, 0.0), (big, 0.0, eps),
                     (eps, big, 0.0), (0.0, big, eps), (big, eps, -eps), (eps, big, eps)]
    nn_ = 0
    for n in near:
        for theta in (0.7, -2.1, math.pi / 2):
            for v in ((1.0, 0.0, 0.0), (0.3, -1.2, 0.8), (0.0, 1.0, 1.0)):
                nn_ += 1
                if not ctx.thorough() and nn_ % 3 != ctx.seed % 3:
                    continue
                ctx.count()
                want = rodrigues(theta, n, v)
                try:
                    o3 = rotate_vector_around_an_axis(theta, Vector(*n), Vector(*v))
                    g3 = (o3.x, o3.y, o3.z)
                    e3 = max(abs(g3[i] - want[i]) for i in range(3))
                except Exception as ex:  # noqa
                    g3, e3 = repr(ex), 1.0
                if e3 > 1e-6:
                    big_i = max(range(3), key=lambda i: abs(n[i]))
                    key = f"rodrigues-near:{'xyz'[big_i]}{'+' if n[big_i] > 0 else '-'}"
                    if key not in bad:
                        bad[key] = {"theta": theta, "axis": list(n), "vec": list(v), "expected": want, "got": g3}
    ctx.extra["near_axis_cases"] = nn_
    ctx.traces += 1
    ctx.extra["sign_classes_of_axes"] = len({c[0] for c in classes})
    ctx.extra["angle_axis_classes"] = len(classes)
    for k, p in sorted(bad.items()):
        ctx.violation(k, f"rotate(theta={p['theta']:.6f}, axis={p['axis']}, v={p['vec']}) = {p['got']}, "
                         f"right-handed rotation gives {p['expected']}", p)

    # ---- T ---------------------------------------------------------------------------------
    rng = random.Random(ctx.seed)
    recs = []
    nrec = 60000 if ctx.thorough() else 12000
    comps = [-4, -3, -2, -1, 0, 0, 1, 2, 3, 4]
    while len(recs) < nrec:
        n = [rng.choice(comps) for _ in range(3)]
        if not any(n):
            continue
        v = [rng.randint(-4, 4) for _ in range(3)]
        theta = rng.uniform(-2 * math.pi, 2 * math.pi)
        scale = rng.choice([1.0, 0.37, 2.5])    # axis length must not matter
        try:
            out = rotate_vector_around_an_axis(theta, Vector(n[0] * scale, n[1] * scale, n[2] * scale), Vector(*v))
        except Exception as ex:  # noqa  (the function is total on non-zero axes: a failure is a finding, not a harness error)
            if "clause:exception" not in bad:
                bad["clause:exception"] = 1
                ctx.violation("clause:exception", f"rotate(theta={theta:.6f}, axis={[c_ * scale for c_ in n]}, v={v}) raises {ex!r}",
                              {"theta": theta, "n": n, "v": v, "scale": scale})
            continue
        recs.append({"n": n, "v": v, "c": round(100 * math.cos(theta)), "s": round(100 * math.sin(theta)),
                     "r": [round(100 * out.x), round(100 * out.y), round(100 * out.z)], "theta": theta, "scale": scale})
    wd = tlc.workdir("c20")
    tf = os.path.join(wd, "trace.json")
    with open(tf, "w") as fh:
        json.dump([{k: x[k] for k in ("n", "v", "c", "s", "r")} for x in recs], fh)
    r = tlc.run("Trace_Rotation", timeout=900, env={"TRACE_FILE": tf})
    ctx.add_tlc(r, "trace validation of generic-angle results")
    ctx.count(len(recs))
    ctx.traces += len(recs)
    if r.invariant_violated:
        # locate the offending record from TLC's counterexample (i = index)
        import re
        m = re.search(r"i = (\d+)", r.stdout)
        rec = recs[int(m.group(1)) - 1] if m else None
        key = f"clause:{r.invariant_violated}:axis{sign_class(rec['n']) if rec else '?'}"
        ctx.violation(key, f"real result violates {r.invariant_violated} of Trace_Rotation: {rec}", rec)
    elif not r.ok:
        raise tlc.TLCError("trace validation failed:\n" + r.stdout[-3000:])


def replay(ctx, path):
    from propka.vector_algebra import Vector, rotate_vector_around_an_axis
    case = json.load(open(path))
    p = case["payload"]
    s = p.get("scale", 1.0)
    out = rotate_vector_around_an_axis(p["theta"], Vector(*[c * s for c in p["axis" if "axis" in p else "n"]]),
                                       Vector(*p["vec" if "vec" in p else "v"]))
    print("rotate ->", (out.x, out.y, out.z), " expected:", p.get("expected", "(see clause)"))
