"""C18 - parameter tables.  Spec: tla/ParamTables.tla (+ MC_ParamTables, Trace_ParamShipped).

M  all line sequences up to a bound: mechanism (ordered-pair dictionaries, ordered key list, stored
   plain cut-off) refines the declarative tables over unordered pairs; symmetry, fall-back, squares.
G  for every distinct reachable table state TLC emits a witness line sequence and the expected
   look-up tables; the lines are fed as text through the real Parameters.parse_line.
T  the tables the real code builds from the working tree's propka.cfg are dumped through the real
   look-up functions and checked by TLC (Trace_ParamShipped) against the shipped-file clauses.
"""
import inspect
import json
import os
import re

from .. import tlc, core

SCALARS = ["desolv_cutoff", "buried_cutoff", "coulomb_cutoff1", "coulomb_cutoff2"]


def line_text(ln, scalar):
    t = ln["t"]
    if t == "mat":
        return "interaction_matrix %s %s" % (ln["k"], " ".join(ln["vals"]))
    if t == "pair":
        return "sidechain_cutoffs %s %s %s %s" % (ln["a"], ln["b"], ln["v"][0], ln["v"][1])
    if t == "dflt":
        return "sidechain_cutoffs default %s %s" % (ln["v"][0], ln["v"][1])
    if t == "cut":
        return "%s %s" % (scalar, ln["x"])
    if t == "cutsq":
        return "%s_squared %s" % (scalar, ln["x"])
    raise ValueError(t)


def creatable_types():
    """Group types the program can create (introspection of propka.group), minus documented exclusions."""
    import propka.group as G
    types = set()
    for name, cls in inspect.getmembers(G, inspect.isclass):
        if cls is G.Group or not issubclass(cls, G.Group):
            continue
        src = inspect.getsource(cls)
        for m in re.finditer(r"self\.type\s*=\s*['\"]([^'\"]+)['\"]", src):
            types.add(m.group(1))
    excluded = {"BBN": "backbone groups never reach the interaction matrix (get_sidechain_groups)",
                "BBC": "backbone groups never reach the interaction matrix (get_sidechain_groups)",
                "ION": "ions are scored by set_ion_determinants by design",
                "LG": "marvin-typed ligand groups are unreachable with the shipped ligand_typing",
                "ALG": "marvin-typed ligand groups are unreachable with the shipped ligand_typing",
                "BLG": "marvin-typed ligand groups are unreachable with the shipped ligand_typing"}
    return sorted(types - set(excluded)), excluded


def run(ctx):
    from propka.parameters import Parameters
    ctx.rule = ("cases = distinct reachable table states of the ParamTables spec, each with a witness parameter-line "
                "sequence; non-trivial = witness with >= 2 lines; plus every ordered pair of creatable group types "
                "under the shipped file")
    # ---- M -------------------------------------------------------------------------------
    r = tlc.run("MC_ParamTables", "MC_ParamTables_t.cfg" if ctx.thorough() else "MC_ParamTables.cfg", timeout=3000)
    ctx.add_tlc(r, "line sequences: mechanism refines declaration, symmetry, fall-back, squares")
    if not r.ok:
        raise tlc.TLCError("spec-level failure in MC_ParamTables:\n" + r.stdout[-3000:])
    # ---- G -------------------------------------------------------------------------------
    r = tlc.run("MC_ParamTables", "Gen_ParamTables_t.cfg" if ctx.thorough() else "Gen_ParamTables.cfg",
                workers=1, timeout=3000)
    ctx.add_tlc(r, "state-witness generator")
    if not r.ok:
        raise tlc.TLCError("generator failed:\n" + r.stdout[-3000:])
    r2 = tlc.run("MC_ParamTables", "Gen_ParamTables_edges_t.cfg" if ctx.thorough() else "Gen_ParamTables_edges.cfg",
                 workers=1, timeout=3000)
    ctx.add_tlc(r2, "all line sequences up to 3 lines (no state merging: drives hidden implementation state)")
    if not r2.ok:
        raise tlc.TLCError("generator failed:\n" + r2.stdout[-3000:])
    keys = ["A", "B", "C"]
    bad = {}
    for idx, c in enumerate(r.printed + r2.printed):
        scalar = SCALARS[idx % 4]
        p = Parameters()
        texts = [line_text(ln, scalar) for ln in c["h"]]
        last_raised = False
        crash = None
        for t in texts:
            last_raised = False
            try:
                p.parse_line(t)
            except ValueError:
                last_raised = True
            except Exception as ex:  # noqa
                crash = f"{type(ex).__name__}: {ex}"
            # a look-up is an observation: every table is asked after every line, in both orientations
            if idx % 2 == 0:
                for a in keys:
                    for b in keys:
                        try:
                            p.interaction_matrix.get_value(a, b)
                            p.sidechain_cutoffs.get_value(a, b)
                        except Exception as ex:  # noqa
                            crash = crash or f"look-up: {type(ex).__name__}: {ex}"
        ctx.count()
        if len(texts) >= 2:
            ctx.nontriv(tuple(texts))
        if idx % 5000 == 17:
            ctx.sample({"lines": texts, "expect_mat": c["mat"], "expect_pair": c["pair"]})
        problems = []
        if crash:
            problems.append(("crash", crash))
        if texts and bool(c["err"]) != last_raised:
            problems.append(("row-length", f"last line raised={last_raised}, spec err={c['err']}"))
        for a in keys:
            for b in keys:
                got = p.interaction_matrix.get_value(a, b)
                exp = c["mat"][a][b]
                # numeric entries of a row are stored as numbers, in both orientations
                try:
                    exp = float(exp)
                except ValueError:
                    pass
                if (got if got is not None else "none") != exp or type(got if got is not None else "none") is not type(exp):
                    problems.append(("matrix", f"get_value({a},{b})={got!r} expected {exp!r}"))
                gp = p.sidechain_cutoffs.get_value(a, b)
                if tuple(float(x) for x in gp) != tuple(float(x) for x in c["pair"][a][b]):
                    problems.append(("cutoff", f"cutoff({a},{b})={gp} expected {c['pair'][a][b]}"))
        if tuple(p.sidechain_cutoffs.default) != tuple(float(x) for x in c["dflt"]):
            problems.append(("default", f"default={p.sidechain_cutoffs.default} expected {c['dflt']}"))
        if any(ln["t"] in ("cut", "cutsq") for ln in c["h"]):
            if abs(getattr(p, scalar) - c["cut"][0]) > 1e-9 or abs(getattr(p, scalar + "_squared") - c["cut"][1]) > 1e-9:
                problems.append(("square", f"{scalar}={getattr(p, scalar)}, squared={getattr(p, scalar + '_squared')} "
                                           f"expected {c['cut']}"))
        for s in SCALARS:
            if abs(getattr(p, s + "_squared") - getattr(p, s) ** 2) > 1e-9:
                problems.append(("square-link", f"{s}"))
        for kind, msg in problems:
            bad.setdefault(f"parse:{kind}", (texts, msg))
    ctx.traces += len(r.printed) + len(r2.printed)
    for k, (texts, msg) in sorted(bad.items()):
        ctx.violation(k, f"after lines {texts}: {msg}", {"lines": texts})

    # ---- T: shipped file -------------------------------------------------------------------
    from propka.input import read_parameter_file
    from propka.lib import loadOptions
    cfgpath = os.path.join(core.REPO, "propka", "propka.cfg")
    params = read_parameter_file(cfgpath, Parameters())
    types, excluded = creatable_types()
    ctx.extra["creatable_types"] = types
    ctx.extra["excluded_types"] = excluded
    mat = {a: {b: (lambda v: "none" if v is None else str(v))(params.interaction_matrix.get_value(a, b)) for b in types} for a in types}
    cut = {a: {b: [round(100 * x) for x in params.sidechain_cutoffs.get_value(a, b)] for b in types} for a in types}
    tmap = dict(params.protein_group_mapping)
    res2type = {}
    for k, v in tmap.items():
        res2type.setdefault(k.split("-")[0], v)
    res2type.update({"C-": "COO", "N+": "N+"})
    titr = {}
    for t, pk in params.model_pkas.items():
        gt = res2type.get(t, t)
        titr[t] = {"wo": 1 if t in params.write_out_order else 0,
                   "q100": round(100 * params.charge.get(gt, 0.0)), "pk100": round(100 * pk)}
    scal = {s: [round(1000 * getattr(params, s)), round(1e6 * getattr(params, s + "_squared"))] for s in SCALARS}
    trace = {"types": types, "mat": mat, "cut": cut, "titr": titr, "scal": scal}
    wd = tlc.workdir("c18")
    tf = os.path.join(wd, "shipped.json")
    json.dump(trace, open(tf, "w"))
    # one TLC run per clause so that each failing clause is reported (TLC stops at the first violated invariant)
    clauses = ["ShippedComplete", "ShippedMatSym", "ShippedCutSym", "InnerLtOuter", "WriteOutOK", "CoulombOrder", "Squares"]
    pending = list(clauses)
    r = tlc.run("Trace_ParamShipped", timeout=600, env={"TRACE_FILE": tf})
    ctx.add_tlc(r, "shipped-file trace: all ordered pairs of creatable types")
    ctx.count(len(types) ** 2)
    ctx.traces += 1
    for a in types:
        for b in types:
            ctx.nontriv(("shipped", a, b))
    ctx.sample({"shipped_pair": ["COO", "HIS"], "mat": mat["COO"]["HIS"], "cut100": cut["COO"]["HIS"]})
    if r.invariant_violated:
        # enumerate all failing pairs on the harness side for stable keys (TLC gave the verdict)
        inv = r.invariant_violated
        if inv == "ShippedComplete":
            missing = sorted({a for a in types for b in types if mat[a][b] == "none" and all(mat[a][x] == "none" for x in types)})
            partial = sorted((a, b) for a in types for b in types if mat[a][b] == "none" and a not in missing and b not in missing)
            for a in missing:
                ctx.violation(f"shipped:no-matrix-row:{a}", f"group type {a!r} can be created but the shipped interaction "
                              f"matrix has no row for it (look-ups give None)", {"type": a})
            for a, b in partial:
                ctx.violation(f"shipped:no-matrix-entry:{a}:{b}", "no interaction type", {"pair": [a, b]})
        else:
            m = re.search(r'a = "([^"]+)"', r.stdout)
            m2 = re.search(r'b = "([^"]+)"', r.stdout)
            ctx.violation(f"shipped:{inv}", f"clause {inv} fails at pair ({m and m.group(1)}, {m2 and m2.group(1)})",
                          {"clause": inv})
        # check the remaining clauses too
        for inv2 in clauses:
            if inv2 == inv:
                continue
            cfgtxt = "SPECIFICATION Spec\nINVARIANT %s\nCHECK_DEADLOCK FALSE\n" % inv2
            cp = os.path.join(wd, "one.cfg")
            open(cp, "w").write(cfgtxt)
            r2 = tlc.run("Trace_ParamShipped", cfg=cp, timeout=600, env={"TRACE_FILE": tf})
            ctx.add_tlc(r2, f"shipped-file trace, clause {inv2}")
            if r2.invariant_violated:
                ctx.violation(f"shipped:{inv2}", f"clause {inv2} fails on the shipped file", {"clause": inv2})
            elif not r2.ok:
                raise tlc.TLCError("trace validation failed:\n" + r2.stdout[-3000:])
    elif not r.ok:
        raise tlc.TLCError("trace validation failed:\n" + r.stdout[-3000:])


def replay(ctx, path):
    from propka.parameters import Parameters
    case = json.load(open(path))
    pl = case["payload"]
    if "lines" in pl:
        p = Parameters()
        for t in pl["lines"]:
            try:
                p.parse_line(t)
                print("ok   ", t)
            except Exception as ex:  # noqa
                print("raise", t, repr(ex))
        for a in "ABC":
            for b in "ABC":
                print(a, b, p.interaction_matrix.get_value(a, b), p.sidechain_cutoffs.get_value(a, b))
        for s in SCALARS:
            print(s, getattr(p, s), getattr(p, s + "_squared"))
    else:
        print(case["what"])
