"""Shared by C09 and C10: real runs -> Trace_Profiles records; generator cases of MC_Profiles."""
import copy
import json
import os
import random

from .. import tlc, runner, corpus, profiles

C09_INV = ["Axioms", "SumOfGroups", "BracketF", "BracketU", "ChargeRows", "PiLine", "ConfPiLine", "ConfChargeRows", "ChargeGrid"]
C09_DIAG = ["BisectConforms"]
C10_INV = ["GridExact", "ChargeGrid", "FoldSum", "LinkGroups", "LinkTotal", "Optimum", "Range80", "StabRange",
           "FoldRows", "OptLine", "ChargeRows", "ConfChargeRows"]

GRIDS_Q = [("0", "14", "0.1"), ("0", "14", "0.5"), ("2", "8", "0.25"), ("3", "9", "0.05"), ("0", "14", "1"), ("0", "3", "0.125"),
           ("6", "7", "0.025"), ("3", "9", "0.15"), ("0", "14", "0.4")]
GRIDS_T = GRIDS_Q + [("0", "14", "0.01"), ("2", "8", "0.2"), ("0", "7", "0.7"), ("0", "0.3", "0.1"), ("1", "13", "0.3"),
                     ("4", "4", "1"), ("0", "14", "0.05"), ("0.5", "12.5", "2")]
WINDOWS_Q = [("0", "14", "1"), ("0", "14", "2"), ("2", "8", "0.5"), ("0.5", "13.5", "1"), ("0", "14", "3")]
WINDOWS_T = WINDOWS_Q + [("1", "13", "4"), ("0", "14", "0.25"), ("3", "9", "1.5"), ("0", "7", "7")]


def inputs(ctx):
    """(name, text) of structures used for profile traces."""
    out = [("1HPX", corpus.test_pdb_text("1HPX")), ("3SGB-subset", corpus.test_pdb_text("3SGB-subset")),
           ("frag-1HPX-A20+8", corpus.fragment("1HPX", "A", 20, 8)), ("none", corpus.no_group_structure()),
           ("sample-issue-140", corpus.test_pdb_text("sample-issue-140")),
           ("frag-3SGB-E0+15", corpus.fragment("3SGB", "E", 0, 15)),
           ("frag-1HPX-A6+4", corpus.fragment("1HPX", "A", 6, 4)), ("frag-4DFR-A30+5", corpus.fragment("4DFR", "A", 30, 5))]
    # groups whose model pKa is a customised one (custom_model_pkas: by residue and atom name): a tyrosine under a
    # parameter file that customises TYR-OH, and the phosphate / ring nitrogens of a nucleotide under the shipped file
    from . import c02
    pf = c02.param_file({"custom_model_pkas TYR-OH": "9.00", "custom_model_pkas LYS-NZ": "11.20"}, "custom-model-pka")
    out.append(("frag-1HPX-A50+12 [custom TYR-OH, LYS-NZ]", corpus.fragment("1HPX", "A", 50, 12), ["-p", pf]))
    out.append(("frag-1HPX-A20+8+dA", nucleotide_next_to(corpus.fragment("1HPX", "A", 20, 8))))
    # multi-conformation inputs whose conformations give different pKa values (profiles are functions of AVR)
    from . import c08
    multi = dict(c08.constructed(ctx))
    out += [(k, multi[k]) for k in ("alt-rotamers-AB", "mutant-A-ASP-B-ASN") if k in multi]
    if ctx.thorough():
        out += [(k, multi[k]) for k in ("model2-missing-atoms", "alt-digits-12") if k in multi]
        out += [(n, corpus.test_pdb_text(n)) for n in ("3SGB", "1FTJ-Chain-A", "4DFR", "conf-alt-AB", "conf-model-mutant")]
        out += [("frag-1FTJ-A100+30", corpus.fragment("1FTJ-Chain-A", "A", 100, 30)),
                ("frag-4DFR-A0+25", corpus.fragment("4DFR", "A", 0, 25))]
    return out


def nucleotide_next_to(text):
    """The structure plus a deoxyadenosine 5'-phosphate (residue DA: P, OP1, OP2, O5', sugar, adenine) placed 12 A from
    its centroid - the shipped parameter file customises the model pKa of DA-OP1/OP2/N1/N3/N7."""
    from .. import pdbio
    lines = corpus.body(text)
    cx, cy, cz = corpus.centroid(lines)
    # idealised coordinates (A) of dAMP, B-DNA-like; only distances matter here
    at = [("P", "P", 0.000, 0.000, 0.000), ("OP1", "O", 1.480, 0.000, 0.000), ("OP2", "O", -0.560, 1.370, 0.000),
          ("O5'", "O", -0.560, -0.780, 1.260), ("C5'", "C", -1.940, -1.130, 1.440), ("C4'", "C", -2.200, -1.770, 2.790),
          ("O4'", "O", -1.800, -0.850, 3.820), ("C3'", "C", -1.420, -3.060, 3.040), ("O3'", "O", -2.250, -4.000, 3.720),
          ("C2'", "C", -0.270, -2.610, 3.930), ("C1'", "C", -0.830, -1.390, 4.660), ("N9", "N", 0.150, -0.370, 5.040),
          ("C8", "C", 1.420, -0.250, 4.550), ("N7", "N", 2.060, 0.790, 5.020), ("C5", "C", 1.170, 1.380, 5.890),
          ("C6", "C", 1.240, 2.500, 6.730), ("N6", "N", 2.350, 3.230, 6.840), ("N1", "N", 0.160, 2.830, 7.460),
          ("C2", "C", -0.920, 2.060, 7.340), ("N3", "N", -1.110, 0.980, 6.590), ("C4", "C", -0.010, 0.690, 5.880)]
    out = list(lines)
    for k, (nm, el, x, y, z) in enumerate(at):
        out.append(pdbio.atom_line("ATOM", 9000 + k, nm, " ", "DA", "N", 1, " ", int(cx + 12000 + 1000 * x), int(cy + 1000 * y),
                                   int(cz + 1000 * z), elem=el))
    out.append(corpus.TER)
    return corpus.join(out)


def real_records(ctx):
    """Run the real code over inputs x grids x windows (a covering selection) and project to trace records."""
    rng = random.Random(ctx.seed)
    grids = GRIDS_T if ctx.thorough() else GRIDS_Q
    wins = WINDOWS_T if ctx.thorough() else WINDOWS_Q
    recs, meta = [], []
    ins = inputs(ctx)
    combos = []
    # every grid and every window at least once on a small input; big inputs get the default and one random combo
    small = [x for x in ins if x[0].startswith(("frag", "alt-", "mutant-", "model2")) or x[0] in ("none", "sample-issue-140", "3SGB-subset")]
    for gi, g in enumerate(grids):
        combos.append((small[gi % len(small)], g, wins[gi % len(wins)]))
    for wi, w in enumerate(wins):
        combos.append((small[(wi + 1) % len(small)], grids[0], w))
    # a fine grid on every small input (free energies within +-0.005 of zero at some node: where a rounding shows)
    for x in small:
        combos.append((x, ("3", "9", "0.05"), wins[len(combos) % len(wins)]))
    for x in ins:
        combos.append((x, grids[0], wins[0]))
        for _ in range(5 if ctx.thorough() else 1):
            g = rng.choice(grids)
            if len(x[1]) > 60000 and float(g[2]) < 0.05:
                g = grids[1]
            combos.append((x, g, rng.choice(wins)))
    for x_, g, w in combos:
        name, text = x_[0], x_[1]
        r = runner.run(text, ["-q", "-g", *g, "-w", *w] + list(x_[2] if len(x_) > 2 else []))
        ctx.count()
        if r.exc is not None:
            meta.append({"input": name, "grid": g, "window": w, "exc": repr(r.exc)})
            recs.append(None)
            continue
        try:
            rec = profiles.record(r.mol, g, w, r.pka_text)
        except Exception as ex:  # noqa - an API failure of the profile functions is a finding for the caller
            meta.append({"input": name, "grid": g, "window": w, "exc": "profile API: " + repr(ex)})
            recs.append(None)
            continue
        recs.append(rec)
        meta.append({"input": name, "grid": g, "window": w, "groups": len(rec["grp"]), "nodes": len(rec["ph"])})
        try:
            from .. import pkafile
            meta[-1]["_layout"] = pkafile.record(r, name)
        except Exception:  # noqa  (the layout is judged where it can be recorded)
            pass
    return recs, meta


def validate(ctx, recs, meta, invariants, diag=()):
    """Trace-validate; returns {invariant: [meta...]} for the violated ones."""
    good = [(r, m) for r, m in zip(recs, meta) if r is not None]
    wd = tlc.workdir("prof")
    tf = os.path.join(wd, "profiles.json")
    json.dump([r for r, _ in good], open(tf, "w"))
    res, viol = tlc.trace_check("Trace_Profiles", list(invariants) + list(diag), tf, timeout=3000)
    ctx.add_tlc(res, "trace validation of profile records (%d runs)" % len(good))
    ctx.traces += len(good)
    out = {}
    for inv, idxs in viol.items():
        out[inv] = [good[i][1] for i in idxs]
    return out


def tiny_mol():
    """A real MolecularContainer of a small fragment whose AVR groups can be replaced by constructed ones."""
    r = runner.run(corpus.fragment("1HPX", "A", 20, 8), ["-q"], write=False)
    if r.exc is not None:
        raise r.exc
    return r.mol


def set_sites(mol, sites):
    """Replace the AVR groups by real Group objects with the given (q, pk, mk)."""
    conf = mol.conformations["AVR"]
    proto = [g for g in conf.groups if g.titratable][0]
    groups = []
    for s in sites:
        g = copy.copy(proto)
        g.determinants = {"sidechain": [], "backbone": [], "coulomb": []}
        g.charge = s["q"]
        g.pka_value = float(s["pk"])
        g.model_pka = float(s["mk"])
        g.titratable = True
        groups.append(g)
    conf.groups = groups
    return mol
