"""Reader part shared by C01 / C07 / C13: M (MC_PdbReader) and G (generator replay)."""
from .. import tlc, readerreplay as rr


def ignore_list():
    import os
    from propka.input import read_parameter_file
    from propka.parameters import Parameters
    from .. import core, runner
    with runner.quiet():
        p = read_parameter_file(os.path.join(core.REPO, "propka", "propka.cfg"), Parameters())
    return list(p.ignore_residues)


def model_check(ctx, cfgs):
    for cfg, label in cfgs:
        r = tlc.run("MC_PdbReader", cfg, timeout=3000)
        ctx.add_tlc(r, label)
        if not r.ok:
            ctx.note(f"SPEC-LEVEL: MC_PdbReader/{cfg}: {r.invariant_violated} violated by the mechanism model "
                     f"(replayed against the code below; not a verdict by itself)")


def replay(ctx, gens, pid_filter=None, sample_every=997):
    """gens: list of (cfg, label, simulate or None). Returns dict key -> (seq, chains, exp, got)."""
    ign = ignore_list()
    bad = {}
    n = 0
    for cfg, label, sim in gens:
        r = tlc.run("MC_PdbReader", cfg, workers=1, timeout=3000, simulate=sim, depth=14 if sim else None,
                    seed=ctx.seed if sim else None)
        ctx.add_tlc(r, label)
        if r.error and not r.printed:
            raise tlc.TLCError("generator failed:\n" + r.stdout[-3000:])
        for c in r.printed:
            seq = c["s"]
            text = rr.concretise(seq)
            for oc in c["out"]:
                chains = set(oc["cs"])
                if pid_filter == "C13" and not chains:
                    continue
                exp = rr.expected_out(oc["o"])
                ctx.count()
                try:
                    got = rr.real_out(text, len(seq), chains, bool(c["keepH"]), ign)
                except Exception as ex:  # noqa
                    bad.setdefault("reader:exception", (seq, sorted(chains), exp, repr(ex), text))
                    continue
                n += 1
                if len(seq) >= 2:
                    ctx.nontriv((text, tuple(sorted(chains)), c["keepH"]))
                if n % sample_every == 0:
                    ctx.sample({"pdb_lines": text.splitlines(), "chains": sorted(chains), "expected": exp})
                if got != exp:
                    key, i = rr.classify(seq, exp, got)
                    bad.setdefault("reader:" + key, (seq, sorted(chains), exp, got, text))
        ctx.traces += len(r.printed)
    return bad
