"""C17 - added hydrogens are chemically placed and complete.
Spec: tla/Protonate.tla (electron counting, cascade of the trigonal/tetrahedral builders; geometry clauses),
      tla/Trace_Protonate.tla, tla/Trace_Rel.tla (HydEquivariant).

M  MC_Protonate: for every environment (valence 4-6, 0-4 neighbours, pi 0-2, conjugated 0-1, charge -1..1) the
   cascade adds exactly the octet deficit limited by the free positions; the complements of the statement
   (His 2, Arg 5, Asn/Gln 2, Trp 1, backbone amide 1) follow from the table.
G  every environment x neighbour arrangements (planar, tetrahedral, axis-aligned; 24 orientations in thorough)
   is built from real Atom objects in a bare ConformationContainer; the real protonate_atom runs; TLC
   (Trace_Protonate) checks count, bond length within rounding, H-H separation, single heavy neighbour.
T  corpus runs: every hydrogen in the conformations (same clauses), complement per complete residue whose
   chain neighbours are present, no 'missing atoms or failed protonation' warning for them, and hydrogen
   positions equivariant under lattice rotations (shared with C04).
"""
import json
import math
import os
import random

from .. import corpus, relations, runner, tlc, pdbio, observe
from . import c04

C = corpus
PLANAR = [(1400, 0, 0), (-700, 1212, 0), (-700, -1212, 0)]
TETRA = [(808, 808, 808), (-808, -808, 808), (-808, 808, -808), (808, -808, -808)]
AXES = [(1400, 0, 0), (0, 1400, 0), (0, 0, -1400), (0, -1400, 0)]
ELEM = {4: "C", 5: "N", 6: "O"}


def build_env(e, dirs, rot=None, origin=(12345, -6789, 4321)):
    from propka.atom import Atom
    from propka.conformation_container import ConformationContainer
    cc = ConformationContainer(name="1A", parameters=None, molecular_container=None)
    R = c04.rot_fn(*rot) if rot else (lambda v: v)

    def mk(name, xyz, serial):
        x, y, z = (o + c for o, c in zip(origin, R(xyz)))
        a = Atom(pdbio.atom_line("HETATM", serial, name, " ", "LIG", "L", 1, " ", x, y, z, elem=name[0]))
        a.conformation_container = cc
        cc.atoms.append(a)
        return a
    centre = mk(ELEM[e["val"]] + "1", (0, 0, 0), 1)
    centre.num_pi_elec_2_3_bonds = e["pi"]
    centre.num_pi_elec_conj_2_3_bonds = e["conj"]
    centre.charge = e["q"]
    nbs = []
    for k in range(e["nb"]):
        n = mk("C%d" % (k + 2), dirs[k], k + 2)
        n.bonded_atoms.append(centre)
        centre.bonded_atoms.append(n)
        nbs.append(n)
    return cc, centre


def build_amide_like(lift_deg, rot=None, origin=(2345, -1789, 4321)):
    """N1 - C1(=X2)(-X3): a terminal nitrogen on an sp2 carbon whose third substituent is lifted out of the plane by
    lift_deg degrees (Arg NH1/NH2, Asn ND2, Gln NE2 and distorted variants of them)."""
    from propka.atom import Atom
    from propka.conformation_container import ConformationContainer
    cc = ConformationContainer(name="1A", parameters=None, molecular_container=None)
    R = c04.rot_fn(*rot) if rot else (lambda v: v)
    th = math.radians(lift_deg)
    pos = {"N1": (0, 0, 0), "C1": (1330, 0, 0), "X2": (1330 + 650, 1126, 0),
           "X3": (1330 + int(650 * math.cos(th)), -int(1126 * math.cos(th)), int(1300 * math.sin(th)))}
    atoms = {}
    for k, (nm, xyz) in enumerate(pos.items()):
        x, y, z = (o + c for o, c in zip(origin, R(xyz)))
        el = "N" if nm in ("N1", "X2") else ("C" if nm == "C1" else "O")
        a = Atom(pdbio.atom_line("HETATM", k + 1, el + nm[1], " ", "LIG", "L", 1, " ", x, y, z, elem=el))
        a.conformation_container = cc
        cc.atoms.append(a)
        atoms[nm] = a
    for a, b in (("N1", "C1"), ("C1", "X2"), ("C1", "X3")):
        atoms[a].bonded_atoms.append(atoms[b])
        atoms[b].bonded_atoms.append(atoms[a])
    atoms["C1"].num_pi_elec_2_3_bonds = 1
    atoms["N1"].num_pi_elec_conj_2_3_bonds = 1
    return cc, atoms["N1"]


def measure(centre, L):
    hs = [a for a in centre.bonded_atoms if a.element == "H"]
    return {"p": list(observe.key_of(centre)), "L": L, "h": [list(observe.key_of(h)) for h in hs],
            "heavy": [len([b for b in h.bonded_atoms if b.element != "H"]) for h in hs]}


def run(ctx):
    from propka.protonate import Protonate
    ctx.rule = ("cases = (environment, neighbour arrangement, orientation) replayed through protonate_atom, and heavy atoms "
                "of corpus runs that received hydrogens; non-trivial = case where at least one hydrogen is added")
    r = tlc.run("MC_Protonate", "MC_Protonate.cfg", timeout=600)
    ctx.add_tlc(r, "electron counting: cascade = declared count; complements")
    if not r.ok:
        raise tlc.TLCError("spec-level failure in MC_Protonate:\n" + r.stdout[-3000:])
    r = tlc.run("MC_Protonate", "Gen_Protonate.cfg", workers=1, timeout=600)
    ctx.add_tlc(r, "environment generator")
    prot = Protonate()
    lengths = {k: int(round(1000 * v)) for k, v in prot.bond_lengths.items()}
    ctx.extra["bond_lengths_milliA_from_working_tree"] = lengths
    rng = random.Random(ctx.seed)
    rots = [None]
    g = tlc.run("Gen_Geometry", "Gen_Geometry.cfg", workers=1, timeout=600)
    allrots = sorted({(tuple(m["p"]), tuple(m["s"])) for m in g.printed})
    if ctx.thorough():
        rots += allrots
    else:
        # one rotation per image of the x axis (the first neighbour lies along it): every coordinate axis, both senses
        from . import c04 as _c04
        by_image = {}
        for p_, s_ in allrots:
            by_image.setdefault(_c04.rot_fn(list(p_), list(s_))((1, 0, 0)), []).append((p_, s_))
        rots += [rng.choice(v_) for _, v_ in sorted(by_image.items())]
    recs, metas = [], []
    bad = {}
    for c in r.printed:
        e = c["e"]
        if e["nb"] > 3:
            arrs = [TETRA]
        else:
            arrs = [PLANAR, TETRA, AXES]
        for arr in arrs:
            for rot in rots:
                dirs = arr[:e["nb"]]
                if len(dirs) < e["nb"]:
                    continue
                cc, centre = build_env(e, dirs, rot)
                ctx.count()
                try:
                    with runner.quiet():
                        prot.protonate_atom(centre)
                except Exception as ex:  # noqa
                    bad.setdefault(f"builder:exception:steric{c['steric']}:nb{e['nb']}", (e, arr, rot, repr(ex)))
                    continue
                m = measure(centre, lengths.get(centre.element, 1000))
                m["exp"] = c["added"]
                recs.append(m)
                metas.append({"env": e, "arrangement": dirs, "rotation": rot, "expected": c["added"], "got": len(m["h"])})
                if m["h"]:
                    ctx.nontriv((json.dumps(e), str(dirs), str(rot)))
    for k, (e, arr, rot, msg) in sorted(bad.items()):
        ctx.violation(k, f"environment {e} neighbours {arr} rotation {rot}: {msg}", {"env": e})
    wd = tlc.workdir("c17")
    tf = os.path.join(wd, "hyd.json")
    json.dump(recs, open(tf, "w"))
    res, viol = tlc.trace_check("Trace_Protonate", ["CountOK", "BondLengths", "Separation", "OneParent"], tf, timeout=1800)
    ctx.add_tlc(res, "builder replays checked against count and geometry clauses")
    ctx.traces += len(recs)
    seen = set()
    for inv, idxs in sorted(viol.items()):
        for i in idxs:
            m = metas[i]
            key = f"builder:{inv}:val{m['env']['val']}:nb{m['env']['nb']}:pi{m['env']['pi']}:conj{m['env']['conj']}:q{m['env']['q']}"
            if key in seen:
                continue
            seen.add(key)
            ctx.violation(key, f"{inv}: {m}; hydrogens {recs[i]['h']} parent {recs[i]['p']}", {"case": m})
    ctx.sample(metas[len(metas) // 2])
    # equivariance of the builder where the plane of an sp2 neighbour defines the hydrogens (planar and distorted)
    eq = []
    eqmeta = []
    for lift in (0, 8, 15, 25, 40):
        cc0, n0 = build_amide_like(lift)
        with runner.quiet():
            prot.protonate_atom(n0)
        h0 = [observe.key_of(h) for h in n0.bonded_atoms if h.element == "H"]
        org = (2345, -1789, 4321)
        for rot in allrots:
            cc1, n1 = build_amide_like(lift, rot)
            with runner.quiet():
                prot.protonate_atom(n1)
            h1 = [observe.key_of(h) for h in n1.bonded_atoms if h.element == "H"]
            R = c04.rot_fn(*rot)
            moved = [tuple(o + c for o, c in zip(org, R(tuple(p - o for p, o in zip(h, org))))) for h in h0]
            ctx.count()
            ctx.nontriv(("amide-like", lift, rot))
            eq.append({"kind": "Equiv", "hashyd": 1, "epsc": 1, "hydA": sorted([0, *m] for m in moved),
                       "hydB": sorted([0, *h] for h in h1)})
            eqmeta.append({"lift_deg": lift, "rotation": rot})
    wdq = tlc.workdir("c17eq")
    tfq = os.path.join(wdq, "eq.json")
    json.dump(eq, open(tfq, "w"))
    resq, violq = tlc.trace_check("Trace_Rel", ["HydEquivariant"], tfq, timeout=1800)
    ctx.add_tlc(resq, "builder equivariance on planar and distorted sp2 neighbours x 24 rotations")
    ctx.traces += len(eq)
    seenq = set()
    for inv, idxs in sorted(violq.items()):
        for i in idxs:
            key = f"builder:equivariance:lift{eqmeta[i]['lift_deg']}"
            if key in seenq:
                continue
            seenq.add(key)
            ctx.violation(key, f"hydrogens built after rotation {eqmeta[i]['rotation']} differ from the rotated hydrogens: "
                               f"{eq[i]['hydB']} vs {eq[i]['hydA']}", {"case": eqmeta[i]})
    # ---- T -----------------------------------------------------------------------------
    def with_mse(text):
        out = []
        for ln in text.splitlines():
            if C.is_atom(ln) and ln[17:20] == "MET" and ln[21] == "A" and int(ln[22:26]) == 46:
                ln = "HETATM" + ln[6:17] + "MSE" + ln[20:]
                if ln[12:16].strip() == "SD":
                    ln = ln[:12] + "SE  " + ln[16:76] + "SE" + ln[78:]
            out.append(ln)
        return "\n".join(out) + "\n"
    structures = [("1HPX-protein", c04.protein_only(C.test_pdb_text("1HPX"))), ("3SGB-subset", C.test_pdb_text("3SGB-subset")),
                  ("1HPX-A-MSE46", with_mse(c04.protein_only("\n".join(C.chain_lines("1HPX", "A")) + "\nTER   \n"))),
                  ("frag-3SGB-E0+40", C.fragment("3SGB", "E", 0, 40)),
                  # a chain whose first residue shares its number with the insertion-coded residues that follow it
                  ("frag-3SGB-E-from-48", C.join(C.chain_lines("3SGB", "E", 19, 16) + [C.TER]))]
    # the same fragment lying across the planes where a coordinate needs all eight columns of its field (x = -100, y = 1000)
    fl = C.body(C.fragment("3SGB", "E", 0, 40))
    cx, cy, cz = C.centroid(fl)
    structures.append(("frag-3SGB-E0+40 across x=-100", C.join(C.translate(fl, -100000 - cx, 0, 0))))
    structures.append(("frag-3SGB-E0+40 across y=+1000 z=-100", C.join(C.translate(fl, 0, 1000000 - cy, -100000 - cz))))
    # hydrogens on elements without a tabulated X-H length (methaneselenol, methylphosphine, methylborane next to a fragment)
    def small(resn, num, atoms_, at):
        return [pdbio.atom_line("HETATM", 9100 + 10 * num + k, nm, " ", resn, "L", num, " ", at[0] + x, at[1] + y, at[2] + z, elem=el)
                for k, (nm, el, x, y, z) in enumerate(atoms_)]
    f5 = C.chain_lines("1HPX", "A", 20, 8)
    ox, oy, oz = C.centroid(f5)
    odd = small("MSL", 1, [("C1", "C", 0, 0, 0), ("SE1", "SE", 1950, 0, 0)], (ox + 15000, oy, oz)) + \
        small("MPH", 2, [("C1", "C", 0, 0, 0), ("P1", "P", 0, 1850, 0)], (ox, oy + 15000, oz)) + \
        small("MBO", 3, [("C1", "C", 0, 0, 0), ("B1", "B", 0, 0, 1560)], (ox, oy, oz + 15000))
    structures.append(("frag-1HPX-A20+8 + MeSeH + MePH2 + MeBH2", C.join(f5 + [C.TER] + odd)))
    # insertion-coded residues of different types on one number (48, 48A-D) in a structure that has a second conformation
    # (alternate locations of a side chain elsewhere): both conformations hold all of them, fully protonated
    ins = C.chain_lines("3SGB", "E", 19, 16)
    tgt = [C.resid(ln) for ln in ins if C.is_atom(ln) and ln[17:20] in ("SER", "THR", "VAL", "LEU") and C.resid(ln)[1] > 50]
    if tgt:
        structures.append(("frag-3SGB-E-ins48+altloc", C.join(C.add_altloc(ins, tgt[0]) + [C.TER])))
    # ... and with occupancy 0.00 on a fifth of its atoms (model-built atoms): the residues are as complete as before
    structures.append(("frag-3SGB-E0+40 occupancy 0.00 on every fifth atom",
                       C.join([(ln.ljust(60)[:54] + "  0.00" + ln.ljust(80)[60:]) if (C.is_atom(ln) and k_ % 5 == 2) else ln
                               for k_, ln in enumerate(fl)])))
    # the program's own hydrogens written back under the old naming convention (HD21 -> 1HD2, HH12 -> 2HH1 ...) and NOT
    # kept: they are input hydrogens like any others, dropped when reading, and every complement is built afresh
    from . import c07 as _c07
    hsrc = C.fragment("3SGB", "E", 0, 40)
    htext = _c07.with_own_hydrogens(hsrc)
    if htext:
        out_ = []
        for ln in htext.splitlines():
            if C.is_atom(ln) and ln[76:78].strip() == "H":
                nm = ln[12:16].strip()
                if len(nm) >= 3 and nm[-1].isdigit():
                    nm = nm[-1] + nm[:-1]
                    ln = ln[:12] + pdbio.fmt_name(nm, "H") + ln[16:]
            out_.append(ln)
        structures.append(("frag-3SGB-E0+40+old-style-hydrogens", "\n".join(out_) + "\n"))
    if ctx.thorough():
        structures += [("3SGB", C.test_pdb_text("3SGB")), ("1FTJ-protein", c04.protein_only(C.test_pdb_text("1FTJ-Chain-A"))),
                       ("4DFR", C.test_pdb_text("4DFR"))]
    hrecs, hmetas = [], []
    rels = []
    for name, text in structures:
        rr = runner.run(text, ["-q"], write=False)
        ctx.count()
        if rr.exc is not None:
            ctx.violation(f"run:exception:{name}", repr(rr.exc), {"pdb": text})
            continue
        # supplied hydrogens are not part of the structure the complements are declared on (they are dropped when reading)
        heavy_text = "\n".join(ln for ln in text.splitlines() if not (C.is_atom(ln) and ln[76:78].strip() == "H")) + "\n"
        idx = observe.InputIndex(heavy_text)
        res_list = idx.residues()
        by_line = {}
        for rr_ in res_list:
            for j in rr_["ids"]:
                by_line[j] = rr_
        warn = [w for w in rr.warnings if "issing atoms or failed protonation" in w[1]]
        # complements per complete residue with chain neighbours - in every conformation (each is completed before it is
        # protonated; residues with alternate locations themselves are left to the first conformation)
        expected = complement_table(res_list, idx)
        altres = {by_line[j]["pos"] for j, r_ in enumerate(idx.recs) if r_ is not None and r_.alt not in (" ", "") and j in by_line}
        atoms_ = [(ci_, a_) for ci_, cn_ in enumerate(rr.mol.conformation_names) for a_ in rr.mol.conformations[cn_].atoms]
        for ci_, a in atoms_:
            if a.element == "H":
                continue
            if ci_ > 0 and (idx.gid(a) not in by_line or by_line[idx.gid(a)]["pos"] in altres):
                continue
            gid = idx.gid(a)
            # default runs drop every supplied hydrogen: all hydrogens found afterwards were built by the program
            hs = [b for b in a.bonded_atoms if b.element == "H"]
            key = (by_line[gid]["pos"], a.name) if gid in by_line else None
            exp = expected.get(key, -1)
            if not hs and exp < 0:
                continue
            m = measure(a, lengths.get(a.element, -1))
            m["h"] = [list(observe.key_of(h)) for h in hs]
            m["heavy"] = [len([b for b in h.bonded_atoms if b.element != "H"]) for h in hs]
            m["exp"] = exp
            hrecs.append(m)
            hmetas.append({"input": name, "atom": f"{a.res_name}{a.res_num}{a.chain_id}:{a.name}", "expected": exp, "got": len(hs)})
            ctx.nontriv((name, gid))
        # warnings for complete residues
        complete_labels = complete_residue_labels(res_list)
        for w in warn:
            pass
        bad_warn = [w for w in rr.warnings if "issing atoms or failed protonation" in w[1]]
        ctx.extra.setdefault("protonation_warnings", {})[name] = len(bad_warn)
        # equivariance under lattice rotations (amino-acid structures: a terminal sp3 atom of a hetero group gets a
        # frame-dependent rotamer by design - the exclusion C04's statement spells out)
        if any(ln.startswith("HETATM") for ln in text.splitlines()) or "old-style-hydrogens" in name or " across " in name:
            continue        # (a rotated copy of a structure at the edge of the coordinate field does not fit the field: C04)
        for (p, s) in (allrots if ctx.thorough() else rng.sample(allrots, 3)):
            t = c04.translation_for(text, p, s, ("unit", "halfcell", "zero"))
            mt = c04.move_text(text, p, s, t)
            R = c04.rot_fn(p, s)
            T = lambda v, R=R, t=t: tuple(x + y for x, y in zip(R(v), t))  # noqa
            rb = runner.run(mt, ["-q"], write=False)
            ctx.count()
            if rb.exc is None:
                rels.append(relations.relate("SameHeavy", rr, text, rb, mt, T=T, with_hyd=True,
                                             meta={"input": name, "motion": {"p": p, "s": s, "t": t}, "pdb": mt, "orig": text}))
    # the complete hydrogen set of a conformation: default runs, and runs that keep supplied hydrogens (the program's own
    # hydrogens written into the input, --keep-protons): one parent each, no coincidences, nothing built on top
    from . import c07
    hsets, hsmeta = [], []
    for name, text in structures:
        if (any(ln.startswith("HETATM") for ln in text.splitlines()) and name != "3SGB-subset") or "old-style-hydrogens" in name:
            continue
        variants = [(name, text, ["-q"], -1)]
        htext = c07.with_own_hydrogens(text)
        if htext:
            nsup = sum(1 for ln in htext.splitlines() if C.is_atom(ln) and ln[76:78].strip() == "H")
            variants.append((name + " +own-hydrogens -k", htext, ["-q", "-k"], nsup))
        for vn, vt, vo, nsup in variants:
            rv_ = runner.run(vt, vo, write=False)
            ctx.count()
            if rv_.exc is not None:
                ctx.violation(f"run:exception:{vn}", repr(rv_.exc), {"pdb": vt, "optargs": vo})
                continue
            for cn in rv_.mol.conformation_names[:1]:
                conf = rv_.mol.conformations[cn]
                hs = [a for a in conf.atoms if a.element == "H" and a.res_name.strip() not in ("HOH", "WAT")]
                hsets.append(hydrogen_set(hs, nsup))
                hsmeta.append({"input": vn, "pdb": vt, "optargs": vo, "hydrogens": len(hs)})
                ctx.nontriv(("hset", vn))
    if hsets:
        tf3 = os.path.join(wd, "hyd_sets.json")
        json.dump(hsets, open(tf3, "w"))
        res, viol = tlc.trace_check("Trace_HydSet", ["H_OneParent", "H_NoHH", "H_Separated", "H_NoneAdded"], tf3, constants={"MinSep": 500}, timeout=1800)
        ctx.add_tlc(res, "complete hydrogen sets of runs (default and --keep-protons)")
        ctx.traces += len(hsets)
        for inv, idxs in sorted(viol.items()):
            for i in idxs[:2]:
                m = hsmeta[i]
                ctx.violation(f"hydrogen-set:{inv}:{'keep-protons' if '-k' in m['optargs'] else 'default'}",
                              f"{inv} violated by the {m['hydrogens']} hydrogens of {m['input']}", {"pdb": m["pdb"], "optargs": m["optargs"]})
        ctx.extra["hydrogen_sets_checked"] = len(hsets)
    tf2 = os.path.join(wd, "hyd_runs.json")
    json.dump(hrecs, open(tf2, "w"))
    if hrecs:
        res, viol = tlc.trace_check("Trace_Protonate", ["CountOK", "BondLengths", "Separation", "OneParent"], tf2, timeout=1800)
        ctx.add_tlc(res, "hydrogens of corpus runs: complements and geometry")
        ctx.traces += len(hrecs)
        seen = set()
        for inv, idxs in sorted(viol.items()):
            for i in idxs:
                m = hmetas[i]
                key = f"run:{inv}:{m['input']}:{m['atom'].split(':')[0][:3]}:{m['atom'].split(':')[1]}"
                if key in seen:
                    continue
                seen.add(key)
                ctx.violation(key, f"{inv}: {m}; hydrogens {hrecs[i]['h']}", {"case": m})
    rv = relations.validate(ctx, rels, ["HydEquivariant"], "hydrogen equivariance")
    for inv, lst in sorted(rv.items()):
        for rel in lst[:3]:
            m = rel["meta"]
            ctx.violation(f"equivariance:{m['input']}", f"{m['input']} moved by {m['motion']}: {c04.hyd_diff(rel)}",
                          {"pdb": m["pdb"], "orig": m["orig"]})
    ctx.extra["hydrogens_in_runs_checked"] = sum(len(h["h"]) for h in hrecs)
    ctx.extra["complement_sites_checked"] = sum(1 for h in hrecs if h["exp"] >= 0)


def hydrogen_set(hs, nsup=-1):
    """Trace_HydSet record of a list of hydrogen atoms."""
    return {"h": [list(observe.key_of(a)) + [len([b for b in a.bonded_atoms if b.element != "H"]),
                                             len([b for b in a.bonded_atoms if b.element == "H"])] for a in hs],
            "supplied": nsup}


FULL = {"HIS": {"N", "CA", "C", "O", "CB", "CG", "ND1", "CD2", "CE1", "NE2"},
        "ARG": {"N", "CA", "C", "O", "CB", "CG", "CD", "NE", "CZ", "NH1", "NH2"},
        "ASN": {"N", "CA", "C", "O", "CB", "CG", "OD1", "ND2"},
        "GLN": {"N", "CA", "C", "O", "CB", "CG", "CD", "OE1", "NE2"},
        "TRP": {"N", "CA", "C", "O", "CB", "CG", "CD1", "CD2", "NE1", "CE2", "CE3", "CZ2", "CZ3", "CH2"}}
SIDE = {"HIS": {"ND1": 1, "NE2": 1}, "ARG": {"NE": 1, "NH1": 2, "NH2": 2}, "ASN": {"ND2": 2}, "GLN": {"NE2": 2}, "TRP": {"NE1": 1}}


NEIGHBOURS = {"N": 2, "ND1": 2, "NE2": 2, "NE": 2, "NH1": 1, "NH2": 1, "ND2": 1, "NE1": 2}
GLN_NE2 = 1


def regular_geometry(idx):
    """{line index of a heavy atom: number of heavy atoms within the 2.0 A bond criterion, all of them at 1.2-1.6 A}
    (-1 when a neighbour is at an irregular distance).  Independent integer arithmetic on the input coordinates."""
    import numpy as np
    ids = [i for i, r in enumerate(idx.recs) if r is not None]
    pts = np.array([[idx.recs[i].x, idx.recs[i].y, idx.recs[i].z] for i in ids], dtype=np.int64)
    out = {}
    for k0 in range(0, len(ids), 500):
        d = pts[k0:k0 + 500, None, :] - pts[None, :, :]
        d2 = (d * d).sum(axis=2)
        for a in range(d2.shape[0]):
            near = np.where((d2[a] < 2000 * 2000) & (d2[a] > 0))[0]
            ok = all(1200 * 1200 <= d2[a][j] <= 1600 * 1600 for j in near)
            out[ids[k0 + a]] = len(near) if ok else -1
    return out


def complement_table(res_list, idx=None):
    """{(residue pos, atom name): expected hydrogens} for complete residues with regular covalent geometry whose
    chain neighbours are present."""
    out = {}
    reg = regular_geometry(idx) if idx is not None else None
    # chain members: amino-acid residues, also when written as HETATM (selenomethionine, phosphoserine ...)
    prot = [r for r in res_list if r["het"] == 0 or {"N", "CA", "C"} <= set(r["names"])]
    for k, r in enumerate(prot):
        names = set(r["names"])
        if len(set(r["alts"])) > 1 or r["het"] == 1:
            continue
        prev = prot[k - 1] if k > 0 else None
        has_prev = (prev is not None and r["ter"] == 0 and prev["chain"] == r["chain"] and prev["model"] == r["model"]
                    and "C" in prev["names"] and not ({"OXT", "O''"} & set(prev["names"]))
                    and (prev["num"] in (r["num"], r["num"] - 1)))
        def regular(an):
            if reg is None:
                return True
            line = r["ids"][r["names"].index(an)]
            want = 1 if (r["resn"] == "GLN" and an == "NE2") else NEIGHBOURS[an]
            return reg.get(line) == want
        def ring_regular():
            """no spurious or missing bond inside the residue: heavy-atom pairs within the 2.0 A criterion = template bonds"""
            if idx is None:
                return True
            want = {"HIS": 10, "ARG": 10, "ASN": 7, "GLN": 8, "TRP": 15}[r["resn"]]
            sel = [j for j, nm in zip(r["ids"], r["names"]) if nm in FULL[r["resn"]]]
            pts = [(idx.recs[j].x, idx.recs[j].y, idx.recs[j].z) for j in sel]
            cnt = sum(1 for a in range(len(pts)) for b in range(a + 1, len(pts))
                      if sum((pts[a][c] - pts[b][c]) ** 2 for c in range(3)) < 2000 * 2000)
            return cnt == want
        if r["resn"] in FULL and FULL[r["resn"]] <= names and ring_regular():
            for an, n in SIDE[r["resn"]].items():
                if regular(an):
                    out[(r["pos"], an)] = n
        if has_prev and r["resn"] != "PRO" and {"N", "CA", "C"} <= names and regular("N"):
            out[(r["pos"], "N")] = 1
    return out


def complete_residue_labels(res_list):
    return set()


def replay(ctx, path):
    case = json.load(open(path))
    print(case["what"])
