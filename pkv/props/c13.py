"""C13 - selecting chains = deleting the other chains from the file.
Spec: tla/PdbReader.tla (C13_ChainSelect on the reader), tla/Relations.tla + Trace_Rel.tla (SameAll, TextSame).

M  MC_PdbReader: for all record sequences and all chain subsets, reader(chains = S) = reader(Filter(s, S)).
G  every emitted sequence x chain subset through the real reader, compared with the declared output.
T  full runs `-c X [-c Y]` versus runs on the edited file (ATOM/HETATM records of the other chains removed,
   TER/other records kept): all groups, determinants, conformations and the .pka text are compared by TLC.
"""
import itertools
import json

from .. import corpus, relations, runner
from . import c01_reader

C = corpus


def chain_filter(text, keep):
    return "\n".join(ln for ln in text.splitlines() if not (C.is_atom(ln) and ln[21] not in keep)) + "\n"


def structures(ctx):
    out = [("1HPX", C.test_pdb_text("1HPX")), ("3SGB-subset", C.test_pdb_text("3SGB-subset"))]
    a = C.chain_lines("1HPX", "A", 0, 12)
    b = C.chain_lines("1HPX", "B", 40, 12)
    lig = [ln for ln in C.atom_lines("1HPX") if ln.startswith("HETATM") and ln[17:20] == "KNI"]
    out.append(("blank+B+lig", C.join(C.rename_chain(a, "A", " ") + [C.TER] + b + [C.TER] + C.rename_chain(lig, "B", "L"))))
    no_oxt = lambda ls: C.drop(ls, lambda ln: ln[12:16].strip() == "OXT")  # noqa
    out.append(("A,B,C-no-TER", C.join(no_oxt(a) + no_oxt(b) + C.rename_chain(C.chain_lines("1HPX", "A", 60, 10), "A", "C"))))
    out.append(("A+B+blank-lig", C.join(a + [C.TER] + b + [C.TER] + C.rename_chain(lig, "B", " "))))
    # a blank chain identifier in a file that carries an identification code / segment identifier in columns 73-76
    segid = lambda ls: [(ln.ljust(80)[:72] + "1HPX" + ln.ljust(80)[76:]) if C.is_atom(ln) else ln for ln in ls]  # noqa
    out.append(("blank+B+segid", C.join(segid(C.rename_chain(a, "A", " ")) + [C.TER] + segid(b) + [C.TER])))
    # chain identifiers that differ only in case (large assemblies run out of upper-case letters), digits
    out.append(("chains-A+a", C.join(a + [C.TER] + C.rename_chain(b, "B", "a") + [C.TER])))
    if ctx.thorough():
        sg = C.test_pdb_text("3SGB-subset").splitlines()
        out.append(("3SGB-subset-E+e", C.join(C.rename_chain(sg, "I", "e"))))
        out.append(("chains-1+A", C.join(C.rename_chain(a, "A", "1") + [C.TER] + C.rename_chain(b, "B", "A") + [C.TER])))
        out += [("3SGB", C.test_pdb_text("3SGB")), ("4DFR", C.test_pdb_text("4DFR")),
                ("1HPX-warn", C.test_pdb_text("1HPX-warn"))]
    return out


def run(ctx):
    ctx.rule = ("cases = reader sequences x chain subsets (TLC-emitted) and full runs (structure x non-empty chain subset); "
                "non-trivial = subset that removes at least one atom record")
    c01_reader.model_check(ctx, [("MC_PdbReader_rich.cfg" if ctx.thorough() else "MC_PdbReader_rich3.cfg",
                                  "reader(chains=S) = reader(Filter(s,S)), all sequences x subsets")])
    c01_reader.model_check(ctx, [("MC_PdbReader_case.cfg", "chains that differ only in case, sequences <= 4 x subsets")])
    gens = [("Gen_PdbReader2.cfg", "emit rich <= 2 x chain subsets", None),
            ("Gen_PdbReader_term3.cfg", "emit termini <= 3 x chain subsets", None),
            ("Gen_PdbReader_case.cfg" if ctx.thorough() else "Gen_PdbReader_case3.cfg", "emit chains A/a x chain subsets", None)]
    if ctx.thorough():
        gens = [("Gen_PdbReader.cfg", "emit rich <= 3 x chain subsets", None),
                ("Gen_PdbReader_term.cfg", "emit termini <= 4 x chain subsets", None)] + gens[2:]
    bad = c01_reader.replay(ctx, gens, pid_filter="C13")
    for k, (seq, chains, exp, got, text) in sorted(bad.items()):
        ctx.violation(k, f"reader on\n{text}chains={chains}: expected {exp}, got {got}", {"pdb": text, "chains": chains})
    rels = []
    for name, text in structures(ctx):
        chains = sorted({ln[21] for ln in text.splitlines() if C.is_atom(ln)})
        subsets = [s for n in range(1, len(chains)) for s in itertools.combinations(chains, n)]
        if not ctx.thorough() and len(subsets) > 3:
            subsets = subsets[:2] + subsets[-1:]
        # a selection of several chains is also given in the reverse of the file order
        subsets = subsets + [tuple(reversed(s_)) for s_ in subsets if len(s_) >= 2][: (None if ctx.thorough() else 2)]
        if len(chains) >= 2:
            subsets.append(tuple(reversed(chains)))      # every chain, named back to front
        for sub in subsets:
            opts = [x for ch in sub for x in ("-c", ch)]
            ra = runner.run(chain_filter(text, set(sub)), ["-q"])
            rb = runner.run(text, ["-q"] + opts)
            ctx.count()
            meta = {"input": name, "chains": list(sub)}
            if ra.exc is not None or rb.exc is not None:
                if (ra.exc is None) != (rb.exc is None) or type(ra.exc) is not type(rb.exc):
                    ctx.violation(f"run:exception-mismatch:{name}:{''.join(sub)}",
                                  f"{meta}: edited file -> {ra.exc!r}; -c -> {rb.exc!r}", {"pdb": text, "chains": list(sub)})
                continue
            ctx.nontriv((name, sub))
            # A = run on the edited file, B = run with -c on the full file; scope = A's atoms
            rels.append(relations.relate("Part", ra, chain_filter(text, set(sub)), rb, text, scope_all_a=True,
                                         textcmp=True, meta=dict(meta, pdb=text)))
            # the same with a titrate-only list naming residues of the selected chains (blank chain: written "_")
            tit = []
            for ln in text.splitlines():
                if C.is_atom(ln) and ln[:4] == "ATOM" and ln[21] in sub and ln[17:20] in ("ASP", "GLU", "LYS", "ARG", "HIS", "TYR"):
                    e = f"{'_' if ln[21] == ' ' else ln[21]}:{int(ln[22:26])}{ln[26].strip()}"
                    if e not in tit:
                        tit.append(e)
            if tit and (ctx.thorough() or len(sub) == 1):
                lst = ",".join(tit[:: max(1, len(tit) // 4)][:5])
                ra2 = runner.run(chain_filter(text, set(sub)), ["-q", "-i", lst])
                rb2 = runner.run(text, ["-q", "-i", lst] + opts)
                ctx.count()
                if ra2.exc is None and rb2.exc is None:
                    rels.append(relations.relate("Part", ra2, chain_filter(text, set(sub)), rb2, text, scope_all_a=True, textcmp=True,
                                                 meta=dict(meta, pdb=text, input=name + " -i " + lst)))
                elif (ra2.exc is None) != (rb2.exc is None):
                    ctx.violation(f"run:exception-mismatch:-i:{name}:{''.join(sub)}", f"{meta} -i {lst}: edited file -> {ra2.exc!r}; -c -> {rb2.exc!r}",
                                  {"pdb": text, "chains": list(sub), "optargs": ["-i", lst]})
    # one invocation, several structures (propka3 -c X first.pdb -f second.pdb): the selection holds for each of them
    import os
    import propka.run as prun
    from .. import tlc
    st = dict(structures(ctx))
    pairs = [("A+B+blank-lig", "A,B,C-no-TER", ("B",)), ("A+B+blank-lig", "A,B,C-no-TER", ("A", "C")),
             ("A,B,C-no-TER", "chains-A+a", ("a", "A")), ("chains-A+a", "blank+B+lig", (" ",))]
    for n1, n2, sub in pairs:
        wd = tlc.workdir("c13main")
        cwd = os.getcwd()
        got = {}
        exc = None
        try:
            os.chdir(wd)
            for fn, n in (("first.pdb", n1), ("second.pdb", n2)):
                open(fn, "w").write(st[n])
            with runner.quiet():
                try:
                    # (main hands its argument on as loadOptions(*optargs): the argument list goes in as one element)
                    prun.main([["-q"] + [x for ch in sub for x in ("-c", ch)] + ["first.pdb", "-f", "second.pdb"]])
                except BaseException as ex:  # noqa
                    exc = ex
            for fn in ("first.pka", "second.pka"):
                got[fn] = open(fn).read() if os.path.exists(fn) else None
        finally:
            os.chdir(cwd)
        ctx.count()
        for fn, n in (("first", n1), ("second", n2)):
            ref = runner.run(chain_filter(st[n], set(sub)), ["-q"], name=fn + ".pdb")
            if ref.exc is not None:
                continue          # (a selection that leaves nothing: what the single run does is the reference)
            ctx.nontriv(("main", n1, n2, sub, fn))
            if got.get(fn + ".pka") != ref.pka_text:
                a_, b_ = (got.get(fn + ".pka") or "").splitlines(), (ref.pka_text or "").splitlines()
                k = next((i for i, (x, y) in enumerate(zip(a_, b_)) if x != y), min(len(a_), len(b_)))
                ctx.violation(f"chains:several-files:{fn}:{n1}|{n2}:{''.join(sub)}",
                              f"propka.run.main -c {list(sub)} {n1} -f {n2}: {fn}.pka differs from the run on the edited file"
                              f" (exception {exc!r}); first difference at line {k + 1}: "
                              f"{a_[k] if k < len(a_) else None!r} vs {b_[k] if k < len(b_) else None!r}",
                              {"pdb": st[n], "first": st[n1], "second": st[n2], "chains": list(sub)})
    viol = relations.validate(ctx, rels, ["SameConfs", "Part", "TextSame"], "chain selection vs edited file")
    for inv, lst in sorted(viol.items()):
        for rel in lst:
            m = rel["meta"]
            ctx.violation(f"chains:{inv}:{m['input']}:{''.join(m['chains'])}",
                          f"-c {m['chains']} on {m['input']} differs from the edited file: {relations.diff_summary(rel)}",
                          {"pdb": m["pdb"], "chains": m["chains"]})
    if rels:
        ctx.sample({"input": rels[0]["meta"]["input"], "chains": rels[0]["meta"]["chains"],
                    "groups_compared": len(rels[0]["A"]["AVR"])})


def replay(ctx, path):
    case = json.load(open(path))
    print(case["what"])
