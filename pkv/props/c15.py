"""C15 - coupling analysis observes without disturbing.
Spec: tla/Coupling.tla (transfer_determinant / swap_interactions; swap . swap = identity on determinant
      multisets), tla/Trace_Run.tla (C15_Symmetric, C15_StarIffPartner, C15_FileStars),
      tla/Trace_Rel.tla (SameScores: analysis on vs off).

M  MC_Coupling: all configurations of three groups (third may share a label with a probed one, several
   determinants towards one partner, coulomb and side-chain lists): two swaps restore every multiset and sum.
G  emitted configurations are built from real Group/Determinant objects and the real swap_interactions is
   stepped twice; lists are compared with the model after each call, multisets and pKa with the original.
T  every corpus run (incl. strongly coupled constructed pairs) with the analysis on and off
   (NCCG.do_prot_stat): all values equal; symmetry of the coupling marks; star iff partner per conformation
   and in the .pka table.
"""
import json

from .. import corpus, relations, runner, runbank, tlc
from . import c05

C = corpus


def build(cfg):
    from propka.determinant import Determinant
    gs = c05.stub_groups(3)
    for i, g in enumerate(gs):
        g.label = cfg["lab"][i]
        g.model_pka = 5.0
        g.charge = -1.0
    for i, g in enumerate(gs):
        for kind, key in (("coulomb", "cb"), ("sidechain", "sc")):
            g.determinants[kind] = []
            for d in cfg["det"][i][key]:
                det = Determinant(gs[d["to"] - 1], float(d["v"]))
                g.determinants[kind].append(det)
        g.calculate_total_pka()
    return gs


def lists(gs):
    idx = {id(g): i + 1 for i, g in enumerate(gs)}
    return [{"cb": [[d.label, int(d.value), idx[id(d.group)]] for d in g.determinants["coulomb"]],
             "sc": [[d.label, int(d.value), idx[id(d.group)]] for d in g.determinants["sidechain"]]} for g in gs]


def spec_lists(x):
    return [{"cb": [[d["lab"], d["v"], d["to"]] for d in g["cb"]], "sc": [[d["lab"], d["v"], d["to"]] for d in g["sc"]]} for g in x]


def bags(ls):
    return [{k: sorted((d[0], d[1]) for d in g[k]) for k in ("cb", "sc")} for g in ls]


def coupled_constructs(ctx):
    """Asp25/Asp25' of the 1HPX dimer with the second fragment pushed away by 0 .. 1.2 A."""
    out = []
    a = C.chain_lines("1HPX", "A", 20, 12)       # large enough for Asp25 / Asp25' to come out coupled
    b = C.chain_lines("1HPX", "B", 20, 12)
    ca, cb = C.centroid(a), C.centroid(b)
    v = [cb[i] - ca[i] for i in range(3)]
    n = max(1, int(sum(x * x for x in v) ** 0.5))
    for k, push in enumerate([0, 300, 600, 900, 1200] if ctx.thorough() else [0, 600]):
        t = [int(x * push / n) for x in v]
        out.append((f"asp-pair+{push}", C.join(a + [C.TER] + C.translate(b, *t) + [C.TER]), []))
    # coupling that exists in the second conformation only: Asp25' side chain, alt-loc A pushed 4 A away, alt-loc B in place
    from .. import pdbio
    side = lambda ln: ln[17:20] == "ASP" and int(ln[22:26]) == 25 and ln[12:16].strip() not in ("N", "CA", "C", "O")  # noqa
    t = [int(x * 4000 / n) for x in v]
    alt_a, alt_b = [], []
    for ln in b:
        if C.is_atom(ln) and side(ln):
            r = pdbio.parse_line(ln)
            alt_a.append(pdbio.set_xyz(ln[:16] + "A" + ln[17:], r.x + t[0], r.y + t[1], r.z + t[2]))
            alt_b.append(ln[:16] + "B" + ln[17:])
    full = [ln for ln in C.body(C.test_pdb_text("1HPX")) if C.is_atom(ln) or ln.startswith("TER")]
    sideB = lambda ln: side(ln) and ln[21] == "B"  # noqa
    alt_a, alt_b = [], []
    for ln in full:
        if C.is_atom(ln) and sideB(ln):
            r = pdbio.parse_line(ln)
            alt_a.append(pdbio.set_xyz(ln[:16] + "A" + ln[17:], r.x + t[0], r.y + t[1], r.z + t[2]))
            alt_b.append(ln[:16] + "B" + ln[17:])
    f2 = []
    for ln in full:
        if C.is_atom(ln) and sideB(ln):
            if alt_a:
                f2 += alt_a + alt_b
                alt_a = []
            continue
        f2.append(ln)
    out.append(("1HPX-asp25B-coupled-in-altB-only", C.join(f2), []))
    alt_a, alt_b = [], []
    for ln in b:
        if C.is_atom(ln) and side(ln):
            r = pdbio.parse_line(ln)
            alt_a.append(pdbio.set_xyz(ln[:16] + "A" + ln[17:], r.x + t[0], r.y + t[1], r.z + t[2]))
            alt_b.append(ln[:16] + "B" + ln[17:])
    b2 = []
    for ln in b:
        if C.is_atom(ln) and side(ln):
            if alt_a:
                b2 += alt_a + alt_b
                alt_a = []
            continue
        b2.append(ln)
    out.append(("asp-pair-coupled-in-altB-only", C.join(a + [C.TER] + b2 + [C.TER]), []))
    # a coupled partner that is also penalised by covalent coupling: Asp25' as the N-terminal residue of its chain
    # (N+ and the carboxylate are three bonds apart), still facing Asp25 of the other chain
    cut = [ln for ln in full if not (C.is_atom(ln) and ln[21] == "B" and ln[:4] == "ATOM" and int(ln[22:26]) < 25)]
    out.append(("1HPX-asp25B-at-chain-start", C.join(cut), []))
    cutf = a + [C.TER] + [ln for ln in b if int(ln[22:26]) >= 25] + [C.TER]
    out.append(("asp-pair-asp25B-at-chain-start", C.join(cutf), []))
    # a coupled pair whose residues carry different insertion codes (His 57 / Asp 102 of 3SGB, Asp renumbered 102A)
    sg = C.body(C.test_pdb_text("3SGB-subset"))
    ids102 = [C.resid(ln) for ln in sg if C.is_atom(ln) and ln[17:20] == "ASP" and C.resid(ln)[1] == 102]
    if ids102:
        out.append(("3SGB-subset-ASP102A", C.join(C.relabel_residues(sg, {ids102[0]: (ids102[0][0], 102, "A")})), []))
    # the same under the optional settings of covalent coupling (shared determinants, penalised groups kept)
    from . import c04
    for tag in (("shared+keep", "ccc+shared+keep") if ctx.thorough() else ("shared+keep",)):
        out.append((f"1HPX-asp25B-at-chain-start [{tag}]", C.join(cut), c04.opts_for(f"x [{tag}]")[1:], {"keeppen": 1}))
        out.append((f"asp-pair-asp25B-at-chain-start [{tag}]", C.join(cutf), c04.opts_for(f"x [{tag}]")[1:], {"keeppen": 1}))
    if ctx.thorough():
        out.append(("4DFR [shared+keep]", C.test_pdb_text("4DFR"), c04.opts_for("x [shared+keep]")[1:], {"keeppen": 1}))
    # two adjacent copies of one ligand in one chain: distinct groups with the same printed label that interact
    ftj = [ln for ln in C.body(C.test_pdb_text("1FTJ-Chain-A")) if C.is_atom(ln) or ln.startswith("TER")]
    lig = [ln for ln in ftj if ln.startswith("HETATM") and ln[17:20] == "GLU"]
    tt = (C.place_copy(ftj, lig, tmin=4000, tmax=14000, clearance=2300) if lig else None)
    if tt:
        copy = [C.set_resid(ln, num=C.resid(ln)[1] + 100) for ln in C.translate(lig, *tt)]
        out.append(("1FTJ+second-GLU-ligand-copy", C.join(ftj + copy), []))
    return out


def run(ctx):
    from propka.coupled_groups import NCCG
    ctx.rule = ("cases = swap configurations (TLC-emitted) and runs with the analysis on/off; non-trivial = configuration "
                "with a mutual determinant between the probed pair; run with >= 1 coupled pair")
    r = tlc.run("MC_Coupling", "MC_Coupling.cfg" if ctx.thorough() else "MC_Coupling_q.cfg", timeout=1800)
    ctx.add_tlc(r, "swap . swap = identity on multisets and sums; third group untouched")
    if not r.ok:
        raise tlc.TLCError("spec-level failure in MC_Coupling:\n" + r.stdout[-3000:])
    gcfg = "Gen_Coupling.cfg"
    if not ctx.thorough():
        # the quick tier replays one residue class (mod 5, chosen by the seed) of the configurations
        import os as _os
        gcfg = _os.path.join(tlc.workdir("c15"), "gen.cfg")
        open(gcfg, "w").write(open(_os.path.join(tlc.TLA_DIR, "Gen_Coupling_q.cfg")).read().replace("EmitRes = 0", "EmitRes = %d" % (ctx.seed % 5)))
    r = tlc.run("MC_Coupling", gcfg, workers=1, timeout=1800)
    ctx.add_tlc(r, "swap configuration generator")
    bad = {}
    stride = 1 if ctx.thorough() else 6
    from propka.parameters import Parameters
    NCCG.parameters = NCCG.parameters or Parameters()
    for n, c in enumerate(r.printed):
        if n % stride != ctx.seed % stride:
            continue
        ctx.count()
        gs = build(c)
        orig = lists(gs)
        pk0 = [g.pka_value for g in gs]
        mutual = any(d[2] == 2 for k in ("cb", "sc") for d in orig[0][k]) or any(d[2] == 1 for k in ("cb", "sc") for d in orig[1][k])
        if mutual:
            ctx.nontriv(json.dumps([c["lab"], orig]))
        try:
            NCCG.swap_interactions([gs[0]], [gs[1]])
            one = lists(gs)
            NCCG.swap_interactions([gs[0]], [gs[1]])
            two = lists(gs)
        except Exception as ex:  # noqa
            bad.setdefault("swap:exception", (c, repr(ex)))
            continue
        if bags(two) != bags(orig) or any(abs(g.pka_value - p) > 1e-9 for g, p in zip(gs, pk0)):
            bad.setdefault("swap:not-undone", (c, f"after two swaps {two}, originally {orig}; pKa {[g.pka_value for g in gs]} vs {pk0}"))
        if one != spec_lists(c["after1"]) or two != spec_lists(c["after2"]):
            bad.setdefault("swap:model-drift", (c, f"after one swap {one}, model {spec_lists(c['after1'])}"))
        # the whole probe (is_coupled_protonation_state_probability with every early return disabled) must leave
        # every determinant multiset and every pKa as it found them - also for twin labels
        ctx.count()
        gp = build(c)
        for g in gp:
            g.intrinsic_pka = g.model_pka
        try:
            NCCG.is_coupled_protonation_state_probability(gp[0], gp[1], lambda ph, reference: 0.0, return_on_fail=False)
            after = lists(gp)
        except Exception as ex:  # noqa
            bad.setdefault("probe:exception", (c, repr(ex)))
            continue
        if bags(after) != bags(orig) or any(abs(g.pka_value - p) > 1e-9 for g, p in zip(gp, pk0)):
            key = "probe:not-neutral" + (":twin-labels" if c["lab"][0] == c["lab"][1] else "")
            bad.setdefault(key, (c, f"after the probe {after}, originally {orig}; pKa {[g.pka_value for g in gp]} vs {pk0}"))
        if mutual and len(ctx.samples) < 2:
            ctx.sample({"labels": c["lab"], "lists": orig, "after_one_swap": one})
    ctx.traces += 1
    for k, (c, msg) in sorted(bad.items()):
        if k == "swap:model-drift":
            ctx.note(f"MODEL-DRIFT: list order/placement after a swap differs from the model: {msg}")
            continue
        ctx.violation(k, f"configuration {c['lab']} {c['det']}: {msg}", {"config": c})
    # ---- T -----------------------------------------------------------------------------
    cases = [("1HPX", C.test_pdb_text("1HPX"), []), ("3SGB-subset", C.test_pdb_text("3SGB-subset"), [])] + \
        [c_ for c_ in coupled_constructs(ctx) if ctx.thorough() or c_[0] == "1HPX-asp25B-at-chain-start [shared+keep]"
         or not c_[0].startswith(("1FTJ+", "1HPX-asp25B-coupled", "1HPX-asp25B-at-chain-start ["))]
    if ctx.thorough():
        cases += [("1FTJ-Chain-A", C.test_pdb_text("1FTJ-Chain-A"), []), ("3SGB", C.test_pdb_text("3SGB"), []), ("4DFR", C.test_pdb_text("4DFR"), []),
                  ("conf-alt-AB", C.test_pdb_text("conf-alt-AB"), [])]
    # the window of pKa values inside which pairs are examined, given explicitly (the shipped values, and a narrower one):
    # a pair whose swapped state leaves the window is undone like any other
    from . import c02 as _c02
    for tag_, ov_ in (("window 0-10", {"min_pka": 0.0, "max_pka": 10.0}), ("window 2-9", {"min_pka": 2.0, "max_pka": 9.0}))[: (2 if ctx.thorough() else 1)]:
        cases.append((f"1HPX [{tag_}]", C.test_pdb_text("1HPX"), ["-p", _c02.param_file(ov_, "c15_" + tag_.replace(" ", "_"))]))
        if ctx.thorough():
            cases.append((f"1FTJ-Chain-A [{tag_}]", C.test_pdb_text("1FTJ-Chain-A"), ["-p", _c02.param_file(ov_, "c15_" + tag_.replace(" ", "_"))]))
    # the same inputs with the display of alternative states requested: values may differ then, marks and stars may not
    cases += [(c_[0] + " -d", c_[1], list(c_[2]) + ["-d"]) + tuple(c_[3:]) for c_ in cases[:1] + coupled_constructs(ctx)[:2]]
    recs, metas, runs = runbank.run_and_record(ctx, cases, keep_runs=True)
    ncoupled = 0
    for rec, m in zip(recs, metas):
        if rec:
            k = sum(1 for c in rec["confs"] for g in rec["G"][c] if g["ncc"])
            m["coupled_groups"] = k
            if k:
                ncoupled += 1
                ctx.nontriv((m["input"], "coupled"))
    ctx.extra["runs_with_coupled_groups"] = ncoupled
    viol = runbank.validate(ctx, recs, metas, runbank.RUN_INV["C15"])
    texts = {c[0]: c[1] for c in cases}
    for inv, lst in sorted(viol.items()):
        for rec, m in lst:
            ctx.violation(f"run:{inv}:{m['input']}", f"{inv} violated on {m}", {"pdb": texts[m["input"]]})
    rels = []
    old = NCCG.do_prot_stat
    try:
        NCCG.do_prot_stat = False
        for (name, text, opts, *_x), ron in zip(cases, runs):
            if ron is None or ron.exc is not None or "-d" in opts:
                continue
            roff = runner.run(text, ["-q"] + list(opts))
            ctx.count()
            if roff.exc is not None:
                continue
            rels.append(relations.relate("SameScores", roff, text, ron, text, meta={"input": name, "pdb": text}))
    finally:
        NCCG.do_prot_stat = old
    # only the request to display alternative states may leave swapped interactions behind: any other reporting option
    # (logging verbosity) is still "analysis on, nothing disturbed"
    loud = [["--log-level", "DEBUG"], ["--log-level", "INFO"]] if ctx.thorough() else [["--log-level", "DEBUG"]]
    for (name, text, opts, *_x), ron in zip(cases, runs):
        if ron is None or ron.exc is not None or "-d" in opts:
            continue
        if not any(g.non_covalently_coupled_groups for c_ in ron.mol.conformation_names for g in ron.mol.conformations[c_].groups):
            continue
        for lo in loud:
            rl = runner.run(text, ["-q"] + list(opts) + lo)
            ctx.count()
            if rl.exc is not None:
                ctx.violation(f"on-off:exception:{' '.join(lo)}:{name}", f"{name} with {lo} raises {rl.exc!r}", {"pdb": text, "optargs": lo})
                continue
            rels.append(relations.relate("SameScores", ron, text, rl, text, meta={"input": name + " " + " ".join(lo), "pdb": text}))
    rv = relations.validate(ctx, rels, ["SameConfs", "SameScores"], "coupling analysis off vs on")
    for inv, lst in sorted(rv.items()):
        for rel in lst:
            m = rel["meta"]
            ctx.violation(f"on-off:{inv}:{m['input']}", f"values differ with the coupling analysis on: {relations.diff_summary(rel)}",
                          {"pdb": m["pdb"]})
    ctx.sample({"runs": [m for m in metas][:4]})


def replay(ctx, path):
    case = json.load(open(path))
    print(case["what"])
