"""C08 - the conformation average is the mean over the conformations that contain a group.
Spec: tla/Conformations.tla (names and order, declared completion vs the reference-atom top-up, mean over
      containing), tla/Trace_Conf.tla.

M  MC_Conformations: all inputs of <= 4 atoms over {2 models} x {blank, B} x 2 positions x atom names: the
   code-shaped top-up yields a correct completion (no alt-loc mutants), never merges residue types (with mutants),
   handles insertion-coded twins (label with insertion code); self-tests: label without insertion code and the
   mutant alphabet are refuted (F3c, F4c at specification level).
G  TLC-emitted inputs are concretised on real coordinates and run.
T  for emitted inputs, the repository's multi-conformation files and constructed alt-loc / MODEL cases TLC checks
   names and order, completion, AVR = mean over the containing conformations for pKa, desolvation and every
   determinant, and that every group reported in some conformation is in the average.
"""
import json
import os
import random

from .. import corpus, runner, tlc, pdbio, observe

C = corpus
TEMPLATE = {"CA": (1458, 0, 0), "CB": (2009, 1420, 0), "CG": (3530, 1447, 100), "N": (0, 0, 0), "C": (2009, -770, -1200),
            "O": (1400, -1800, -1500), "OD1": (4100, 600, 900), "OD2": (4150, 2400, -600)}


def concretise(seq):
    lines = []
    model = None
    for k, a in enumerate(seq):
        if a["m"] != model:
            if model is not None:
                lines.append("ENDMDL")
            lines.append("MODEL     %4d" % a["m"])
            model = a["m"]
        ch, num, ic = a["key"]
        x, y, z = TEMPLATE[a["nm"]]
        off = num * 5200 + (2600 if ic != " " else 0) + (ord(ch) - 65) * 20800
        name = a["nm"] if not (a["resn"] == "VAL" and a["nm"] == "CG") else "CG1"
        lines.append(pdbio.atom_line("ATOM", k + 1, name, a["alt"], a["resn"], ch, num, ic, x + off, y + 13 * (k + 1), z + 7 * k))
    lines.append("ENDMDL")
    return "\n".join(lines) + "\nEND\n"


def read_input(text, ignore, with_h=False):
    out = []
    model = 1
    for ln in text.splitlines():
        if ln.startswith("MODEL "):
            model = int(ln[6:])
        if C.is_atom(ln):
            r = pdbio.parse_line(ln)
            el = r.name[0:2].strip().strip("0123456789")
            if len(r.name.strip()) == 4:
                el = el[:1]
            if (el.upper() == "H" and not with_h) or r.resn in ignore:
                continue
            out.append({"m": model, "alt": r.alt, "key": [r.chain, r.num, r.icode], "resn": r.resn.strip(), "nm": r.name.strip(),
                        "ish": 1 if el.upper() == "H" else 0})
    return out


def record(rr, text, ignore, with_h=False):
    mol = rr.mol
    names = list(mol.conformation_names)
    rec = {"inp": read_input(text, ignore, with_h), "confs": [[int(n[:-1]), n[-1]] for n in names], "cname": names,
           "atoms": {}, "grp": {}, "avr": [], "eps": 3}

    def grec(g):
        a = g.atom
        dl, dv = [], []
        agg = {}
        for kind in ("sidechain", "backbone", "coulomb"):
            for d in g.determinants[kind]:
                agg[kind[:2] + "|" + d.label] = agg.get(kind[:2] + "|" + d.label, 0.0) + d.value
        for k in sorted(agg):
            dl.append(k)
            dv.append(observe.m6(agg[k]))
        ch = " " if a.chain_id == "_" else a.chain_id
        full = sorted([kind[:2] + "|" + d.label, observe.m6(d.value)] for kind in ("sidechain", "backbone", "coulomb")
                      for d in g.determinants[kind])
        return {"full": full,
                "rk": [ch, a.res_num, a.icode or " ", g.type, g.residue_type.strip(), a.name if a.type != "atom" else ""], "pka6": observe.m6(g.pka_value),
                "ev6": observe.m6(g.energy_volume), "el6": observe.m6(g.energy_local), "dl": dl, "dv": dv, "label": g.label}
    for n in names:
        conf = mol.conformations[n]
        # (with kept hydrogens: the supplied ones are atoms of the file; hydrogens the program builds in addition are not)
        sup = {(x["key"][0], x["key"][1], x["key"][2], x["nm"]) for x in rec["inp"] if x.get("ish")}
        rec["atoms"][n] = [[[" " if a.chain_id == "_" else a.chain_id, a.res_num, a.icode or " "], a.name, a.res_name.strip()]
                           for a in conf.atoms
                           if a.element != "H" or (with_h and (" " if a.chain_id == "_" else a.chain_id, a.res_num, a.icode or " ", a.name) in sup)]
        rec["grp"][n] = [grec(g) for g in conf.groups if g.use_in_calculations()]
    rec["avr"] = [grec(g) for g in mol.conformations["AVR"].groups]
    return rec


def ids_of(lines):
    out = []
    for ln in lines:
        if C.is_atom(ln) and C.resid(ln) not in out:
            out.append(C.resid(ln))
    return out


def constructed(ctx):
    out = []
    frag = C.chain_lines("1HPX", "A", 22, 6)       # ... Asp25 ...
    ids = []
    for ln in frag:
        if C.resid(ln) not in ids:
            ids.append(C.resid(ln))
    asp = [r for r in ids if any(ln[17:20] == "ASP" and C.resid(ln) == r for ln in frag)][0]

    def alt(lines, pred, tag, dy=0):
        res = []
        for ln in lines:
            if C.is_atom(ln) and pred(ln):
                r = pdbio.parse_line(ln)
                ln = pdbio.set_xyz(ln[:16] + tag + ln[17:], r.x, r.y + dy, r.z)
            res.append(ln)
        return res
    side = lambda ln: C.resid(ln) == asp and ln[12:16].strip() not in ("N", "CA", "C", "O")  # noqa
    # rotamers A/B of the Asp side chain
    a = alt(frag, side, "A")
    b = [ln for ln in alt(frag, side, "B", 350) if side(ln)]
    both = []
    for ln in a:
        both.append(ln)
    # insert B copies after the A copies of the residue
    idx = max(i for i, ln in enumerate(both) if side(ln))
    both = both[:idx + 1] + b + both[idx + 1:]
    out.append(("alt-rotamers-AB", C.join(both + [C.TER])))
    # a disulfide that exists in one alternate location only: the SG of one cysteine has a second position 2.2 A away
    ss = C.chain_lines("3SGB", "E", 12, 4) + [C.TER] + C.rename_chain(C.chain_lines("3SGB", "E", 32, 4), "E", "F") + [C.TER]
    ssalt = []
    sgs = [pdbio.parse_line(ln) for ln in ss if C.is_atom(ln) and ln[17:20] == "CYS" and ln[12:16].strip() == "SG"]
    away = [sgs[0].x - sgs[1].x, sgs[0].y - sgs[1].y, sgs[0].z - sgs[1].z]       # from the partner's sulfur to this one
    for ln in ss:
        if C.is_atom(ln) and ln[21] == "E" and ln[17:20] == "CYS" and ln[12:16].strip() == "SG":
            r = pdbio.parse_line(ln)
            ssalt.append(ln[:16] + "A" + ln[17:])
            ssalt.append(pdbio.set_xyz(ln[:16] + "B" + ln[17:], r.x + away[0], r.y + away[1], r.z + away[2]))   # 4.1 A apart
        else:
            ssalt.append(ln)
    out.append(("disulfide-in-altA-only", C.join(ssalt)))
    # two residues of the same ionizable type that differ in the insertion code only (GLU 97 / GLU 97A): as a single
    # conformation and as two identical models - each twin is averaged with itself, not with its neighbour
    for k_, (src_, lines_, a1_, a2_) in enumerate(C.adjacent_same_type()[1:3]):
        tw_ = C.make_twins(lines_, a1_, a2_)
        out.append((f"same-type-twins-{src_}-{a1_[1]}", C.join(tw_ + [C.TER])))
        body_ = C.join(tw_ + [C.TER]).replace("END\n", "")
        out.append((f"same-type-twins-{src_}-{a1_[1]}-two-models",
                    "MODEL        1\n" + "\n".join(tw_) + "\nTER   \nENDMDL\nMODEL        2\n" + "\n".join(tw_) + "\nTER   \nENDMDL\nEND\n"))
    # whole terminal residues in two alternate locations (their N / OXT atoms carry alt-loc labels too)
    ft = C.chain_lines("1FTJ-Chain-A", "A", 0, 5)
    out.append(("nterm-residue-altAB", C.join(C.add_altloc(ft, ids_of(ft)[0], delta=(400, 300, -200), backbone=()) + [C.TER])))
    ct = C.chain_lines("1HPX", "A", 94, 5)
    out.append(("cterm-residue-altAB", C.join(C.add_altloc(ct, ids_of(ct)[-1], delta=(300, -300, 200), backbone=()) + [C.TER])))
    out.append(("alt-digits-12", C.join([ln[:16] + {"A": "1", "B": "2"}.get(ln[16], ln[16]) + ln[17:] if C.is_atom(ln) else ln for ln in both] + [C.TER])))
    # the Asp side chain exists only in alt A (other atoms of the residue have A and B copies of CB)
    cb_b = [ln for ln in b if ln[12:16].strip() == "CB"]
    only_a = both[:idx + 1] + cb_b + both[idx + 1 + len(b):]
    out.append(("asp-only-in-A", C.join(only_a + [C.TER])))
    # ... only in alt B: A has CB only
    a_cb = [ln for ln in a if not (side(ln) and ln[12:16].strip() != "CB")]
    idx2 = max(i for i, ln in enumerate(a_cb) if side(ln))
    only_b = a_cb[:idx2 + 1] + b + a_cb[idx2 + 1:]
    out.append(("asp-only-in-B", C.join(only_b + [C.TER])))
    # alt-loc point mutants at an interacting position: A = ASP / B = ASN and the reverse
    def mutant(first, second):
        res = []
        done = False
        for ln in frag:
            if C.is_atom(ln) and C.resid(ln) == asp:
                if done:
                    continue
                done = True
                block = [x for x in frag if C.is_atom(x) and C.resid(x) == asp]
                for tag, resn, dy in (("A", first, 0), ("B", second, 23)):
                    for x in block:
                        r = pdbio.parse_line(x)
                        nm = x[12:16]
                        if resn == "ASN" and nm.strip() == "OD2":
                            nm = " ND2"
                        y = x[:12] + nm + tag + resn + x[20:]
                        res.append(pdbio.set_xyz(y, r.x, r.y + dy, r.z))
            else:
                res.append(ln)
        return res
    out.append(("mutant-A-ASP-B-ASN", C.join(mutant("ASP", "ASN") + [C.TER])))
    out.append(("mutant-A-ASN-B-ASP", C.join(mutant("ASN", "ASP") + [C.TER])))
    # ... with a third conformation that has no atoms of its own at the mutated position: another residue has three
    # alternate locations (completion may take the position from one donor conformation, not from two)
    other = [r_ for r_ in ids if r_ != asp and any(C.resid(ln) == r_ and ln[12:16].strip() == "CG" for ln in frag)][0]
    out.append(("mutant-A-ASP-B-ASN+altABC-elsewhere",
                C.join(C.add_altloc(mutant("ASP", "ASN"), other, delta=(250, 150, -200), labels=("A", "B", "C")) + [C.TER])))
    out.append(("mutant-B-ASP-C-ASN+altABC-elsewhere",
                C.join([ln[:16] + {"A": "B", "B": "C"}[ln[16]] + ln[17:] if (C.is_atom(ln) and C.resid(ln) == asp) else ln
                        for ln in C.add_altloc(mutant("ASP", "ASN"), other, delta=(250, 150, -200), labels=("A", "B", "C"))] + [C.TER])))
    # ... as three models: ASP, ASN, and a model in which the residue is not modelled at all
    def _model(variant):
        res = []
        for ln in mutant("ASP", "ASN"):
            if C.is_atom(ln) and C.resid(ln) == asp:
                if variant is None or ln[16] != variant:
                    continue
                ln = ln[:16] + " " + ln[17:]
            res.append(ln)
        return "\n".join(res + [C.TER])
    out.append(("models-ASP-ASN-unmodelled", "".join(f"MODEL     {m:4d}\n{_model(v)}\nENDMDL\n" for m, v in ((1, "A"), (2, "B"), (3, None))) + "END\n"))
    out.append(("models-unmodelled-ASN-ASP", "".join(f"MODEL     {m:4d}\n{_model(v)}\nENDMDL\n" for m, v in ((1, None), (2, "B"), (3, "A"))) + "END\n"))
    # identical models
    body = "\n".join(frag + [C.TER])
    out.append(("identical-models-1-2", f"MODEL        1\n{body}\nENDMDL\nMODEL        2\n{body}\nENDMDL\nEND\n"))
    out.append(("identical-models-5-12-13", "".join(f"MODEL     {m:4d}\n{body}\nENDMDL\n" for m in (5, 12, 13)) + "END\n"))
    # model 2 lacks the Asp side chain beyond CB (completed from model 1)
    lack = "\n".join([ln for ln in frag if not (side(ln) and ln[12:16].strip() != "CB")] + [C.TER])
    out.append(("model2-missing-atoms", f"MODEL        1\n{body}\nENDMDL\nMODEL        2\n{lack}\nENDMDL\nEND\n"))
    # a whole chain that only the second model has (model 1: chain A; model 2: chains A and B)
    fb_ = C.chain_lines("1HPX", "B", 22, 6)
    bodyb = "\n".join(frag + [C.TER] + fb_ + [C.TER])
    out.append(("model2-adds-chain-B", f"MODEL        1\n{body}\nENDMDL\nMODEL        2\n{bodyb}\nENDMDL\nEND\n"))
    # insertion-coded twins with an alternate location elsewhere (F3c)
    tw = C.relabel_residues(both, {ids[4]: (ids[3][0], ids[3][1], "A")})
    out.append(("twins+altloc", C.join(tw + [C.TER])))
    return out


def run(ctx):
    ctx.rule = ("cases = multi-conformation inputs: TLC-emitted (concretised), repository files, constructed alt-loc/MODEL "
                "cases; non-trivial = input with >= 2 conformations; distinct = input text")
    ctx.assumptions += ["'completed with the atoms it lacks from the others' is read strongly (DESIGN sec. 5)"]
    sfx = ".cfg" if ctx.thorough() else "_q.cfg"
    for cfg, label, expect in (("MC_Conformations" + sfx, "top-up = declared completion (no mutants)", None),
                               ("MC_Conformations_nm" + sfx, "never merges residue types (with mutants)", None),
                               ("MC_Conformations_twins.cfg", "twins, label with insertion code", None),
                               ("MC_Conformations_chains.cfg", "two chains sharing a residue number, with mutants", None),
                               ("MC_Conformations_twins_noicode.cfg", "self-test: label without insertion code", "TopUpAgrees"),
                               ("MC_Conformations_mut.cfg", "self-test: one reference atom per label with mutants", "TopUpAgrees")):
        r = tlc.run("MC_Conformations", cfg, timeout=1800)
        ctx.add_tlc(r, label)
        if expect:
            ctx.extra.setdefault("selftests_refuted", {})[cfg] = (r.invariant_violated == expect)
            if r.invariant_violated != expect:
                raise tlc.TLCError(f"self-test {cfg} was not refuted")
        elif not r.ok:
            raise tlc.TLCError(f"spec-level failure in MC_Conformations/{cfg}:\n" + r.stdout[-3000:])
    from . import c01_reader
    ign = c01_reader.ignore_list()
    r = tlc.run("MC_Conformations", "Gen_Conformations.cfg", workers=1, timeout=1800)
    ctx.add_tlc(r, "input generator")
    rng = random.Random(ctx.seed)
    emitted = [c["s"] for c in r.printed if len({(a["m"], a["alt"]) for a in c["s"]}) >= 2]
    if not ctx.thorough():
        emitted = rng.sample(emitted, min(len(emitted), 400))
    r = tlc.run("MC_Conformations", "Gen_Conformations_his.cfg", workers=1, timeout=1800)
    ctx.add_tlc(r, "input generator, point mutants whose ionizable groups sit on the same atom name (ASP/HIS)")
    his = [c["s"] for c in r.printed if len({(a["m"], a["alt"]) for a in c["s"]}) >= 2
           and len({a["resn"] for a in c["s"]}) == 2 and any(a["nm"] == "CG" for a in c["s"])]
    emitted += his if ctx.thorough() else rng.sample(his, min(len(his), 150))
    r = tlc.run("MC_Conformations", "Gen_Conformations_chains.cfg", workers=1, timeout=1800)
    ctx.add_tlc(r, "input generator, two chains that share a residue number")
    chn = [c["s"] for c in r.printed if len({(a["m"], a["alt"]) for a in c["s"]}) >= 2 and len({a["key"][0] for a in c["s"]}) == 2]
    emitted += chn if ctx.thorough() else rng.sample(chn, min(len(chn), 150))
    inputs = [("gen-%d" % k, concretise(s)) for k, s in enumerate(emitted)]
    inputs += constructed(ctx)
    from . import c16
    from .. import runbank
    _, cfgt = runbank.cfg_record()
    for nm, text, _o in c16.ion_constructs(ctx, cfgt)[:3]:
        inputs.append((nm + " (single conformation)", text))
        body = "\n".join(ln for ln in text.splitlines() if not ln.startswith("END"))
        inputs.append((nm + " (two identical models)", f"MODEL        1\n{body}\nENDMDL\nMODEL        2\n{body}\nENDMDL\nEND\n"))
    for n in ("conf-alt-AB", "conf-alt-AB-mutant", "conf-alt-BC", "conf-model-missing-atoms", "conf-model-mutant", "4DFR"):
        inputs.append((n, C.test_pdb_text(n)))
    recs, metas = [], []
    from .. import pipeline
    stage_events = []
    # supplied hydrogens that are kept (--keep-protons): they are atoms of the file like any others - every conformation
    # is completed with them (the program's own hydrogens of the first conformation, written back without alt-loc label)
    from . import c07
    keep = []
    for nm, text in inputs:
        if nm in ("alt-rotamers-AB", "nterm-residue-altAB", "conf-alt-AB", "model2-missing-atoms") + (("4DFR", "alt-digits-12") if ctx.thorough() else ()):
            ht = c07.with_own_hydrogens(text)
            if ht:
                # (not on residues that have alternate locations themselves: the hydrogens of location A do not fit the
                # atoms of location B, which then - rightly - get hydrogens of their own)
                altres = {C.resid(ln) for ln in text.splitlines() if C.is_atom(ln) and ln[16] != " "}
                ht = "\n".join(ln for ln in ht.splitlines()
                               if not (C.is_atom(ln) and ln[76:78].strip() == "H" and C.resid(ln) in altres)) + "\n"
                keep.append((nm + " +own-hydrogens -k", ht))
    inputs = [(n_, t_, ["-q"]) for n_, t_ in inputs] + [(n_, t_, ["-q", "-k"]) for n_, t_ in keep]
    for name, text, ropts in inputs:
        with pipeline.recording() as ev:
            rr = runner.run(text, ropts, write=False)
        stage_events.append((name, ev))
        ctx.count()
        if rr.exc is not None:
            ctx.violation(f"run:exception:{type(rr.exc).__name__}:{'gen' if name.startswith('gen-') else name}",
                          f"{name}: {rr.exc!r}", {"pdb": text})
            continue
        ctx.nontriv(text)
        recs.append(record(rr, text, ign, with_h=("-k" in ropts)))
        metas.append({"input": name, "pdb": text, "confs": recs[-1]["cname"], "optargs": ropts[1:]})
    # the written file of the average: a sentence of PkaFile.tla whose determinant table and summary list the same groups
    from .. import pkafile
    lay = []
    for name, text, ropts in inputs:
        if name in ("model2-adds-chain-B", "asp-only-in-B", "mutant-A-ASN-B-ASP", "conf-model-mutant", "conf-alt-AB-mutant"):
            rw = runner.run(text, ropts, write=True)
            ctx.count()
            if rw.exc is None and rw.pka_text:
                lay.append((pkafile.record(rw, name), name, text))
    if lay:
        lv = pkafile.validate(ctx, [x[0] for x in lay], "files of multi-conformation runs")
        for inv in ("F_Accepted", "F_TablesAgree"):
            for i_ in lv.get(inv, [])[:2]:
                ctx.violation(f"conf:ReportedUnion:file:{inv}:{lay[i_][1]}",
                              f"{inv} violated by the file written for {lay[i_][1]} (determinant table and summary of the average)",
                              {"pdb": lay[i_][2]})
    wd = tlc.workdir("c08")
    tf = os.path.join(wd, "conf.json")
    json.dump(recs, open(tf, "w"))
    invs = ["Names", "NeverMerged", "CompletedOK", "MeanOK", "ReportedUnion", "AvrOnce", "AvrOnlyReported", "AgreeingAverageToThemselves",
            "SameResidueSameGroups"]
    res, viol = tlc.trace_check("Trace_Conf", invs, tf, timeout=3000)
    ctx.add_tlc(res, "trace validation of multi-conformation runs (%d)" % len(recs))
    ctx.traces += len(recs)
    seen = set()
    for inv, idxs in sorted(viol.items()):
        for i in idxs:
            m = metas[i]
            cls = classify(inv, recs[i], m)
            key = f"conf:{inv}:{cls}"
            if key in seen:
                continue
            seen.add(key)
            ctx.violation(key, f"{inv} violated on {m['input']} (conformations {m['confs']}): {explain(inv, recs[i])}",
                          {"pdb": m["pdb"]})
    # stage traces of all these runs against the stage machine (tla/Pipeline.tla): loops are barriers over the
    # conformations, the average comes after every conformation was scored and analysed, counts are frozen
    traces = [(n, e) for n, e in stage_events if e and e[0]["ev"] == "Read"]
    try:
        rejected, incomplete = pipeline.validate(ctx, [e for _, e in traces], "stage traces of the multi-conformation runs")
    except tlc.TLCError as ex:      # (notes only: not completing in the time limit on a loaded machine is a note too)
        ctx.note("BEYOND-PROPERTIES: stage-trace validation did not complete: " + str(ex).splitlines()[0][:200])
        rejected, incomplete = {}, {}
    ctx.extra["stage_traces"] = {"runs": len(traces), "events": sum(len(e) for _, e in traces), "rejected": len(rejected),
                                 "incomplete": len(incomplete)}
    for i, at in sorted(rejected.items())[:5]:
        n, e = traces[i]
        ctx.note(f"BEYOND-PROPERTIES: stage trace of {n} is not a behaviour of Pipeline: rejected at event {at}: "
                 f"{e[at - 1] if 0 < at <= len(e) else '?'}")
    if metas:
        ctx.sample({"input": metas[-1]["input"], "confs": metas[-1]["confs"]})
    ctx.extra["runs"] = len(recs)


def lacking(rec):
    """(conformation, atom) pairs the declared completion demands but the run lacks; with the residue name of the
    first conformation (program order) that holds an atom of that label."""
    def conf_of(a):
        alt = {" ": "A", "1": "A", "2": "B", "3": "C"}.get(a["alt"], a["alt"])
        return "%d%s" % (a["m"], alt)
    own = {}
    for a in rec["inp"]:
        own.setdefault(conf_of(a), set()).add((tuple(a["key"]), a["nm"], a["resn"]))
    out = []
    for c in rec["cname"]:
        obs = {(tuple(x[0]), x[1], x[2]) for x in rec["atoms"][c]}
        names = {}
        for x in obs:
            names.setdefault(x[0], set()).add(x[2])
        others = set().union(*[v for k, v in own.items() if k != c]) if len(own) > 1 else set()
        for x in sorted(others):
            if any(y[0] == x[0] and y[1] == x[1] for y in obs):
                continue
            mine = names.get(x[0], set())
            if mine and x[2] not in mine:
                continue
            first = next((y[2] for cn in rec["cname"] for y in sorted(own.get(cn, ())) if y[0] == x[0] and y[1] == x[1]), None)
            out.append((c, x, first))
    return out


def classify(inv, rec, m):
    name = m["input"]
    if inv == "CompletedOK":
        lk = lacking(rec)
        if lk and all(first is not None and first != x[2] for _, x, first in lk):
            return "reference-atom-of-other-residue-type"
    if name.startswith("gen-"):
        resn = sorted({a["resn"] for a in rec["inp"]})
        twins = len({(a["key"][0], a["key"][1]) for a in rec["inp"]}) < len({tuple(a["key"]) for a in rec["inp"]})
        return "gen:" + "+".join(resn) + (":twins" if twins else "")
    return name


def explain(inv, rec):
    if inv == "MeanOK":
        out = []
        for g in rec["avr"]:
            vals = [x["pka6"] for n in rec["cname"] for x in rec["grp"][n] if x["rk"] == g["rk"]]
            if vals and abs(g["pka6"] * len(vals) - sum(vals)) > 3 * len(vals):
                out.append(f"{g['label']}: AVR {g['pka6'] / 1e6:.4f}, in conformations {[v / 1e6 for v in vals]} "
                           f"({len(vals)} of {len(rec['cname'])})")
        return out[:3]
    if inv == "ReportedUnion":
        have = {tuple(g["rk"]) for g in rec["avr"]}
        return sorted({g["label"] for n in rec["cname"] for g in rec["grp"][n] if tuple(g["rk"]) not in have})[:5]
    if inv == "CompletedOK":
        return [f"{c} lacks {x[2]} {x[0]} {x[1]} (first holder of that label: {first})" for c, x, first in lacking(rec)[:4]]
    if inv == "NeverMerged":
        return {n: len(v) for n, v in rec["atoms"].items()}
    return ""


def replay(ctx, path):
    case = json.load(open(path))
    print(case["what"])
