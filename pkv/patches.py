"""Diagnostic patches: harness-side implementations of the presumed repair of a recorded finding.

Used only to *attribute* a violation that was already found: a violation is attributed to a known
finding iff it disappears when the presumed repair is installed.  Never used to decide a property.
"""
import contextlib
import inspect
import re
import textwrap


@contextlib.contextmanager
def f3a_same_residue_with_icode():
    """F3a: the same-residue test of the desolvation sum ignores the insertion code."""
    import propka.energy as en
    import propka.version as ver
    orig = en.radial_volume_desolvation
    src = textwrap.dedent(inspect.getsource(orig))
    pat = re.compile(r"if \(atom\.res_num == group\.atom\.res_num\s*\n\s*and atom\.chain_id == group\.atom\.chain_id\):")
    if not pat.search(src):
        yield False
        return
    src2 = pat.sub("if (atom.res_num == group.atom.res_num and atom.chain_id == group.atom.chain_id "
                   "and (atom.icode or ' ') == (group.atom.icode or ' ')):", src)
    ns = dict(en.__dict__)
    exec(compile(src2, "<f3a-patch>", "exec"), ns)
    new = ns["radial_volume_desolvation"]
    en.radial_volume_desolvation = new
    saved = {}
    for name, obj in list(vars(ver).items()):
        if obj is orig:
            saved[name] = obj
            setattr(ver, name, new)
    # version classes bind the function at class creation / in __init__
    patched_attrs = []
    for cls in [c for c in vars(ver).values() if inspect.isclass(c)]:
        for k, v in list(vars(cls).items()):
            if v is orig:
                patched_attrs.append((cls, k, v))
                setattr(cls, k, new)
    try:
        yield True
    finally:
        en.radial_volume_desolvation = orig
        for name, obj in saved.items():
            setattr(ver, name, obj)
        for cls, k, v in patched_attrs:
            setattr(cls, k, v)
