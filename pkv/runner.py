"""Run propka (from the working tree) on PDB text; quiet; scratch cwd; capture warnings and the .pka text."""
import contextlib
import io
import logging
import os
import shutil

from . import tlc


class Run:
    def __init__(self):
        self.mol = None
        self.pka_text = None
        self.exc = None
        self.warnings = []
        self.optargs = ()


class _Collect(logging.Handler):
    def __init__(self, sink):
        super().__init__(level=logging.WARNING)
        self.sink = sink

    def emit(self, record):
        try:
            self.sink.append((record.name, record.getMessage()))
        except Exception:  # noqa
            pass


_scratch = None


def scratch():
    global _scratch
    if _scratch is None or not os.path.isdir(_scratch):
        _scratch = tlc.workdir("run")
    return _scratch


@contextlib.contextmanager
def quiet(sink=None):
    root = logging.getLogger()
    h = _Collect(sink if sink is not None else [])
    old_level = root.level
    old_handlers = root.handlers[:]
    root.handlers = [h]
    root.setLevel(logging.WARNING)
    try:
        yield
    finally:
        root.handlers = old_handlers
        root.setLevel(old_level)


def run(text, optargs=(), name="input.pdb", write=True, path=None):
    """Run propka.run.single on PDB text given as a stream (or on a path). Never raises: see Run.exc."""
    import propka.run as prun
    r = Run()
    r.optargs = tuple(optargs)
    cwd = os.getcwd()
    wd = scratch()
    os.chdir(wd)
    try:
        with quiet(r.warnings):
            try:
                if path is not None:
                    r.mol = prun.single(path, optargs=tuple(optargs), write_pka=False)
                else:
                    r.mol = prun.single(name, optargs=tuple(optargs), stream=io.StringIO(text), write_pka=False)
                if write:
                    for f in os.listdir(wd):
                        if f.endswith(".pka"):
                            os.unlink(os.path.join(wd, f))
                    r.mol.write_pka()
                    outs = [f for f in os.listdir(wd) if f.endswith(".pka")]
                    if outs:
                        r.pka_text = open(os.path.join(wd, outs[0])).read()
                        for f in outs:
                            os.unlink(os.path.join(wd, f))
            except BaseException as ex:  # noqa  (propka failures are data for the checks)
                if isinstance(ex, (KeyboardInterrupt, SystemExit)) and not isinstance(ex, SystemExit):
                    raise
                r.exc = ex
    finally:
        os.chdir(cwd)
    return r


def test_pdb(name):
    from . import core
    return open(os.path.join(core.REPO, "tests", "pdb", name + ".pdb")).read()
