"""Executes one history of propka calls in this (fresh) interpreter and prints digests as JSON.

argv[1]: JSON file {"inputs": {id: pdb text}, "steps": [{"c": id, "o": [optargs], "via": ..., "mode": "path"|"stream"}],
                    "cwd": dir, "hashperm": int or null, "alloc": int}
"""
import hashlib
import io
import json
import logging
import os
import random
import sys


def digest_mol(mol, pka_text):
    h = hashlib.sha256()

    def put(*xs):
        for x in xs:
            h.update(repr(x).encode())
            h.update(b"|")
    for name in list(mol.conformation_names) + ["AVR"]:
        conf = mol.conformations[name]
        put("conf", name, len(conf.groups))
        for g in conf.groups:
            put(g.label, g.type, g.pka_value, g.model_pka, g.energy_volume, g.energy_local, g.num_volume, g.buried,
                g.titratable, g.charge)
            for kind in ("sidechain", "backbone", "coulomb"):
                put(kind, [(d.label, d.value) for d in g.determinants[kind]])
            put(sorted(x.label for x in g.non_covalently_coupled_groups), sorted(x.label for x in g.covalently_coupled_groups))
    put(mol.get_folding_profile(), mol.get_charge_profile(), mol.get_pi())
    text = pka_text.split("\n", 1)[1] if pka_text else ""
    put(text)
    return h.hexdigest()


def main():
    spec = json.load(open(sys.argv[1]))
    sys.path.insert(0, os.environ.get("PKV_REPO", "/repo"))
    logging.disable(logging.CRITICAL)
    if spec.get("alloc"):
        rnd = random.Random(spec["alloc"])
        junk = [bytearray(rnd.randrange(1, 5000)) for _ in range(rnd.randrange(10, 3000))]  # noqa - perturbs addresses
    import propka.run as prun
    import propka.group as pgroup
    if spec.get("hashperm") is not None:
        rnd = random.Random(spec["hashperm"])
        salt = rnd.getrandbits(61)
        pgroup.Group.__hash__ = lambda self: hash((id(self) * 2654435761 + salt) % (2 ** 61 - 1))
    os.makedirs(spec["cwd"], exist_ok=True)
    os.chdir(spec["cwd"])
    for fname, text in spec.get("files", {}).items():
        open(fname, "w").write(text)
    out = []
    k = 0
    streams = {}
    steps = spec["steps"]
    while k < len(steps):
        st = steps[k]
        try:
            if st["via"] == "single":
                fname = st.get("fname") or f"in_{st['c']}_{k}.pdb"
                if st.get("mode") in ("stream", "stream-reused", "stream-read"):
                    # the caller's stream object: a fresh one, the one an earlier step of this history already handed in (now
                    # at its end), or one the caller has read a few lines of - the content is the same text
                    if st["mode"] == "stream-reused":
                        stream = streams.setdefault(st["c"], io.StringIO(spec["inputs"][st["c"]]))
                    else:
                        stream = io.StringIO(spec["inputs"][st["c"]])
                        if st["mode"] == "stream-read":
                            for _ in range(25):
                                stream.readline()
                    mol = prun.single(fname, optargs=tuple(st["o"]) + ("-q",), stream=stream, write_pka=True)
                else:
                    open(fname, "w").write(spec["inputs"][st["c"]])
                    if st.get("fname"):
                        # one path reused for successive contents, time stamp preserved (cp -p, rsync -t)
                        os.utime(fname, (1700000000, 1700000000))
                        for f in os.listdir("."):
                            if f.startswith(fname[:-4]) and f.endswith(".pka"):
                                os.unlink(f)
                    mol = prun.single(fname, optargs=tuple(st["o"]) + ("-q",), write_pka=True)
                pk = [f for f in os.listdir(".") if f.startswith(fname[:-4]) and f.endswith(".pka")]
                text = open(pk[0]).read() if pk else None
                out.append({"key": st["c"] + " " + " ".join(st["o"]), "dig": digest_mol(mol, text)})
                k += 1
            else:
                # run.main with the files of this main invocation (consecutive steps main1, main2 with equal options)
                group = [st]
                if k + 1 < len(steps) and steps[k + 1]["via"] == "main2":
                    group.append(steps[k + 1])
                names = []
                for j, s2 in enumerate(group):
                    fname = f"main_{s2['c']}_{k + j}.pdb"
                    open(fname, "w").write(spec["inputs"][s2["c"]])
                    names.append(fname)
                args = list(group[0]["o"]) + ["-q", names[0]] + [x for n in names[1:] for x in ("-f", n)]
                prun.main([args])
                for j, s2 in enumerate(group):
                    stem = names[j][:-4]
                    pk = [f for f in os.listdir(".") if f.startswith(stem) and f.endswith(".pka")]
                    text = open(pk[0]).read() if pk else ""
                    body = text.split("\n", 1)[1] if text else ""
                    out.append({"key": s2["c"] + " " + " ".join(s2["o"]), "dig": "TEXT:" + hashlib.sha256(body.encode()).hexdigest()})
                k += len(group)
        except BaseException as ex:  # noqa
            out.append({"key": st["c"] + " " + " ".join(st["o"]), "dig": "EXCEPTION", "exc": repr(ex)})
            k += 1
    print("PKVRESULT " + json.dumps(out))


if __name__ == "__main__":
    main()
