"""Regenerates /verif/MANIFEST.json from the table below (python3 -m pkv.manifest)."""
import json
import os

VERIF = os.path.dirname(os.path.dirname(os.path.abspath(__file__)))

TRUST = ("TLC 1.8 and SANY; the hand-written declarative operators of the named TLA+ modules as the meaning of the "
         "property; the harness' concretiser/projection code; bounds as recorded in the evidence file")

CHECKS = {
    "C19": dict(
        engine="Hybrid36",
        technique="TLA+ odometer/Judge spec model-checked by TLC; TLC-generated (field,value) and (string,verdict) "
                  "cases replayed into propka.hybrid36.decode",
        text="TLC exhaustively walks the hybrid-36 encoding order (all values of widths 1-3/4, boundary segments or all of "
             "width 5) checking value/encoding/monotonicity of the specification; every emitted case and every malformed "
             "string up to length 4/5 over a class-representative alphabet is replayed through the real decode, and an "
             "odometer cross-checked against TLC's walk drives decode over sampled (quick) or all 87.5M (thorough) width-5 values.",
        design="5/C19"),
    "C20": dict(
        engine="Rotation",
        technique="TLA+ exact-rational Rodrigues spec + code-shaped five-step mechanism model-checked by TLC; "
                  "TLC-generated triples replayed into rotate_vector_around_an_axis; quantised real results "
                  "trace-validated by TLC",
        text="TLC checks on every (angle, axis, vector) of the rational family (axes -6..6, 11 cosines, vectors -1..1 / -2..2) "
             "that the closed form satisfies the statement's clauses and that the five-step mechanism with its case "
             "splits equals it; every triple is replayed through the real function (1e-9), and real results for random "
             "generic angles/axis lengths are quantised and checked by TLC against the three clauses.",
        design="5/C20"),
    "C18": dict(
        engine="ParamTables",
        technique="TLA+ parameter-table spec (ordered-pair dictionaries refine unordered-pair tables) model-checked by TLC; "
                  "witness line sequences replayed into Parameters.parse_line; shipped tables trace-validated by TLC",
        text="TLC explores every parameter-line sequence up to 5/6 lines over 3 keys (matrix rows incl. wrong lengths and "
             "repeated keys, pair entries, defaults, plain and squared cut-offs) and checks symmetry, fall-back, square "
             "linkage and refinement; for every distinct reachable table state a witness file is parsed by the real code "
             "and all look-ups compared; the real tables of the working tree's propka.cfg are dumped and checked by TLC "
             "for every ordered pair of creatable group types.",
        design="5/C18"),
    "C11": dict(
        engine="CellList",
        technique="TLA+ cell-list mechanism vs all-pairs declaration model-checked by TLC; TLC-generated placements replayed "
                  "into BondMaker; real bond sets and recorded traversal of random clouds trace-validated by TLC",
        text="TLC runs the stepwise cell-list mechanism (insert, within-cell, 13 half-space offsets) to completion for every "
             "placement of two (thorough: three) atoms straddling all cell boundaries/thresholds in all 26 directions incl. "
             "negative cells and checks it equals the all-pairs criterion, half-space cover and the locality lemma; every "
             "placement is replayed through the real BondMaker at three rigid shifts; real bond sets, bridge flags and the "
             "recorded pair-loop traversal of random dense clouds are checked by TLC. Thresholds are read from the working tree.",
        design="5/C11"),
    "C09": dict(
        engine="Profiles",
        technique="TLA+ exact-rational charge family and bisection mechanism model-checked by TLC; TLC-generated site sets "
                  "replayed into real Group/get_charge_profile/get_pi; API values and .pka tables of real runs trace-validated by TLC",
        text="TLC checks the single-site axioms, sign-monotone totals on the exact family (integer pK-pH, 1-3 sites) and the "
             "bisection mechanism for every threshold of a 1024-point lattice; each site set is built from real Group objects and "
             "the real profile/pI compared with the rationals and unit brackets; on real runs TLC checks per-group bounds, "
             "mid-point, monotonicity, sum-of-groups per column, pI brackets and the printed charge table and pI line.",
        design="5/C09"),
    "C10": dict(
        engine="Profiles",
        technique="TLA+ grid/window/linkage spec model-checked by TLC; TLC-generated grids and windows replayed into make_grid "
                  "and the folding-profile writer; API profiles and .pka tables of real runs trace-validated by TLC (interval linkage)",
        text="TLC checks grid-by-accumulation = grid-by-index with both end points and the window-row definition, emits every "
             "(min,max,step) and (window, grid step) of the domain for replay through the real make_grid / writer; on real runs "
             "TLC checks exact grids, per-group and total proton linkage by mean-value intervals over reported charges, the "
             "optimum as first minimum, both ranges, and the printed folding table, charge table and optimum line; the written "
             "file of every profile run is folded over the layout machine PkaFile.tla (every profile part the API computes is "
             "printed once, in its place); inputs include groups with customised model pKa values.",
        design="5/C10, 11.7"),
    "C01": dict(
        engine="PdbReader",
        technique="TLA+ reader mechanism vs declarative chain-start/census spec model-checked by TLC; TLC-generated record "
                  "sequences replayed into get_atom_lines_from_pdb; full-run records trace-validated by TLC (DeclCensus)",
        text="TLC checks the reader's terminus/conformation tagging against the statement's definition of chain starts for all "
             "well-formed record sequences (<= 4/5 records over 2 chains x 2 numbers x insertion codes; richer alphabet <= 3/4), "
             "every sequence is replayed through the real reader (plus simulated sequences to length 14); for full runs over test "
             "structures, fragments and constructed terminus/label layouts x chain selection x titrate-only, TLC computes the "
             "declared census from the residue-level input and compares it with every conformation, the average, the summary "
             "rows, model pKa values, bridged cysteines and ligand/ion configuration.",
        design="5/C01"),
    "C02": dict(
        engine="Determinants",
        technique="TLA+ calculate_pka control-flow spec with dirty set model-checked by TLC; group records and parsed .pka of "
                  "real runs trace-validated by TLC (sum identity, rendering)",
        text="TLC explores all interleavings of scoring, totals, sharing, penalising and removal for 3 groups under the four "
             "parameter settings (and refutes the pinned tree's conditional recomputation as a self-test); on real runs over "
             "structures x options x five parameter files TLC checks pKa = model + desolvation + listed determinants for every "
             "group of every conformation and the average, and that table rows, stars-free values and summary of the .pka "
             "file render exactly those numbers. Hosts CovalentCoupling.tla (coupling rule behind coupling_effects: model "
             "checking, generated molecules through the real code, real conformations trace-validated; notes only) and "
             "PkaFile.tla (layout of the written file: writer vs acceptor model-checked incl. one-line damage; every written "
             "file folded over the acceptor, both tables list the same groups).",
        design="5/C02, 11.7"),
    "C04": dict(
        engine="Geometry",
        technique='TLA+ lattice-motion spec (24 rotations, translations; instantiates CellList) model-checked by TLC; TLC-generated motions applied exactly to real structures; run pairs trace-validated by TLC (SameHeavy, SameBonds, SameAll, HydEquivariant)',
        text='TLC checks distance/bond/bridge invariance for three atoms around cell boundaries under all 24 proper lattice rotations x translation classes and emits the motions; the harness applies them in exact integer arithmetic to real structures (hetero structures: clause a; amino-acid structures: clauses a, b with supplied hydrogens, c hydrogen equivariance within 0.001 A) and TLC compares the mapped-back records of moved and original runs; exact knife-edge inputs are excluded by an integer test.',
        design="5/C04"),
    "C05": dict(
        engine="Iterative",
        technique='TLA+ iterative-solver spec (fixed point, cluster independence) model-checked by TLC; TLC-generated configurations replayed into iterative.add_determinants; unions of real structures vs parts trace-validated by TLC (Part)',
        text="TLC checks for every configuration of two clusters (charges, pKa, hb, coulomb values) that a converged cluster is a fixed point and that a cluster's determinants do not depend on the other cluster under the global convergence test and the cap of 10; every configuration is replayed through the real solver alone and jointly; unions of real structures at separations 25.001 A .. 9000 A x 7 directions x both orders are run and TLC checks every group of each part equals the part run alone (also when the far part comes in two conformations); >1000 A unions must not fail. Energy.tla transcribes the distance laws of one interaction as exact fractions: TLC checks zero at and beyond the outer cut-off on grids around every break point and every case is replayed into the real functions.",
        design="5/C05, 11.2"),
    "C06": dict(
        engine="Identity",
        technique='TLA+ relabelling spec (chain maps, shifts, sequential renumbering, twins; key faithfulness) model-checked by TLC; TLC-generated descriptors applied to real structures; run pairs trace-validated by TLC (SameUpToLabels); known finding attributed by diagnostic patch',
        text='TLC enumerates all 320 relabelling descriptors, checks they keep labellings valid and which label-derived keys stay faithful; each descriptor is applied to real multi-chain structures by a fixed-column rewrite and TLC compares every group, determinant (matched by file position) and conformation of relabelled and baseline runs.',
        design="5/C06"),
    "C07": dict(
        engine="PdbReader",
        technique='TLA+ reader spec (ignorable records never change the yielded atoms) model-checked by TLC; TLC-generated sequences replayed into the reader; edited/original run pairs trace-validated by TLC (SameAll, TextSame)',
        text='TLC checks on all record sequences that removing OTHER records and ignorable residues never changes what the reader yields (with and without keep-protons); full runs on inputs edited by inserting ignorable records/residues anywhere, hydrogens inside residues, rewritten serial (incl. hybrid-36), occupancy, B-factor, element and charge columns, --protonate-all, and own hydrogens fed back with -k are compared with the original by TLC, including the .pka text.',
        design="5/C07"),
    "C13": dict(
        engine="PdbReader",
        technique='TLA+ reader spec (reader(chains=S) = reader(Filter(s,S))) model-checked by TLC; TLC-generated sequences x chain subsets replayed into the reader; -c runs vs edited-file runs trace-validated by TLC (Part, TextSame)',
        text='TLC checks for all record sequences and chain subsets that selecting chains equals filtering the records, every case is replayed through the real reader, and full runs with -c (blank ids, hetero groups with own id, chains without TER) are compared by TLC with runs on the edited file, including the .pka text.',
        design="5/C13"),
    "C08": dict(
        engine="Conformations",
        technique='TLA+ conformation spec (names/order, declared completion vs reference-atom top-up, mean over containing) model-checked by TLC; TLC-generated multi-conformation inputs concretised and run; run records trace-validated by TLC (Trace_Conf)',
        text="TLC checks on all inputs of <= 4 atoms over 2 models x alt-locs x positions (incl. insertion-coded twins and alt-loc mutants) that the code-shaped top-up is a correct completion and never merges residue types (two self-tests must be refuted); emitted inputs, the repository's multi-conformation files and constructed alt-loc / MODEL / mutant cases are run and TLC checks names and order, completion, AVR = mean over the containing conformations for pKa, desolvation and every determinant, and that every reported group is in the average once, and that conformations of one model holding the same atoms at a residue position report the same groups there. The stage traces of all these runs are validated against Pipeline.tla.",
        design="5/C08, 11.7"),
    "C12": dict(
        engine="Truncation",
        technique='TLA+ truncation spec (templates x removed-atom subsets) model-checked by TLC; TLC-generated subsets replayed as deletions in real five-residue windows; truncated-run records trace-validated by TLC (DeclCensus)',
        text='TLC enumerates for 11 residue templates all subsets of removed atoms (templates <= 9/12 atoms; singles and doubles beyond), each is concretised by deleting those atoms from a real residue in its real neighbourhood and run.single must complete with exactly the declared census of the truncated input; random atom / side-chain / backbone / residue / ligand deletions in full structures; empty or unknown-type inputs must raise ValueError.',
        design="5/C12"),
    "C14": dict(
        engine="TitrateOnly",
        technique='TLA+ titrate-only spec (parser grammar, filter laws) model-checked by TLC; TLC-generated entries replayed into parse_res_string; -i runs trace-validated by TLC (DeclCensus with ListedRes, EnvKept, SameAll)',
        text='TLC checks the parser mechanism against the grammar for every entry shape and the filter laws; every entry string goes through the real parser; for fragments with twins all (thorough) or a covering selection of residue subsets are run with -i and TLC checks the reported census matched on chain, number and insertion code, that listed groups keep desolvation/buried/backbone terms and all groups stay present, all-listed = no option, unknown entries ignored; iterative acid-base pairs with one member listed are decided by the fixed-point condition of Iterative.tla (IonPairKept).',
        design="5/C14, 11.3"),
    "C15": dict(
        engine="Coupling",
        technique='TLA+ swap spec (transfer_determinant, swap . swap = identity) model-checked by TLC; TLC-generated configurations replayed into NCCG.swap_interactions; runs with the analysis on/off trace-validated by TLC (SameScores, symmetry, star iff partner)',
        text='TLC checks for all configurations of three groups (shared labels, several determinants per partner, coulomb and side-chain lists) that two swaps restore every multiset and sum; each configuration is built from real Group/Determinant objects and the real swap stepped twice (lists compared with the model after each call); corpus runs incl. constructed strongly coupled pairs are run with the coupling analysis on and off and TLC checks equal values, symmetric marks, and star iff partner per conformation and in the .pka table.',
        design="5/C15"),
    "C16": dict(
        engine="SignTable",
        technique='TLA+ Coulomb sign table (mechanism vs statement) model-checked by TLC; TLC-generated cases replayed into add_coulomb_determinants / set_ion_determinants / set_determinants with stubbed magnitudes; group records of corpus runs trace-validated by TLC (C16 invariants)',
        text="TLC checks that the code's assignment rule satisfies the statement's sign rule for all charge / model-pKa combinations and ions; every case and every pair of titratable types of the parameter file goes through the real functions with a stubbed interaction magnitude; on corpus runs (test structures, every ion type next to acids and bases, like-charge constructs) TLC checks desolvation, backbone and Coulomb signs, Coulomb and side-chain bounds, buried fraction and equal-and-opposite acid-base determinants for every group; Energy.tla bounds every single "
             "hydrogen-bond and Coulomb value by its configured maximum on grids of distance, angle factor and dielectric weight, "
             "each case replayed into the real functions.",
        design="5/C16, 11.2"),
    "C17": dict(
        engine="Protonate",
        technique='TLA+ electron-counting / builder-cascade spec model-checked by TLC; TLC-generated environments replayed into Protonate.protonate_atom on real Atom objects; hydrogens of replays and corpus runs trace-validated by TLC (count, bond length, separation, single parent, equivariance)',
        text="TLC checks for all 270 environments that the builder cascade adds the declared number of hydrogens and that the statement's complements follow; each environment x planar/tetrahedral/axis-aligned neighbour arrangement x orientations is built from real atoms and protonated, and TLC checks count, X-H length within coordinate rounding, H-H >= 0.5 A and a single heavy neighbour; on corpus runs TLC checks the same clauses for every hydrogen, the complements of complete residues with chain neighbours, and equivariance under lattice rotations.",
        design="5/C17"),
    "C03": dict(
        engine="RunHistory",
        technique="TLA+ run-history spec (process-level state across calls, hazard self-tests) model-checked by TLC; TLC-generated "
                  "history shapes executed in fresh interpreters under varied hash seed / hash permutation / allocation / cwd / "
                  "path-vs-stream; digests trace-validated by TLC (Pure)",
        text="TLC checks that in the model of the process-level state (valence table growth, NCCG parameters, shared Parameters "
             "object of run.main) equal (content, options) give equal observations over all histories of <= 4 calls and refutes "
             "three hazard variants; it emits every history shape of three calls over 4 contents (one with an unknown element, one "
             "multi-conformation, one coupled) x 4 option settings x {single, main}; a seeded selection is executed, each in a "
             "fresh interpreter with varied PYTHONHASHSEED, Group.__hash__ permutation, allocation pattern, working directory and "
             "path/stream input, and TLC checks that full-precision digests of all results and the .pka text are equal within each "
             "history and to the reference run of the same key; every (content, option) key is also repeated systematically. One "
             "in-process history is recorded stage by stage and each call's event sequence must be a behaviour of the stage machine "
             "Pipeline.tla (folded transition function, binding self-test with corrupted traces) and identical for repeated calls. "
             "MC_Display.tla models the -d display of a coupled system (all pairs probed, all 7 sets of pairs swapped "
             "cumulatively): TLC checks that the result does not depend on the iteration order of the set of identity-hashed "
             "groups and refutes the mechanism that uses the set's own order (F12); every emitted (lists, order) is replayed "
             "through the real print_out_swaps.",
        design="5/C03, 11.4, 11.7"),
}

NOT_APPLICABLE = {}


def build():
    checks = []
    for pid in sorted(CHECKS):
        c = CHECKS[pid]
        checks.append({
            "property_id": pid,
            "quick_cmd": f"./check {pid} --tier quick",
            "thorough_cmd": f"./check {pid} --tier thorough",
            "evidence_file": f"/verif/evidence/{pid}.json",
            "replay_cmd_template": f"./check {pid} --replay {{path}}",
            "engine": c["engine"],
            "level_claimed": {"category": "model_checking", "text": c["text"], "design_ref": c["design"]},
            "level_note": c.get("note", TRUST),
            "technique": c["technique"],
        })
    man = {
        "version": 1,
        "setup_cmd": "./setup.sh",
        "hooks": {
            "guard": "PROPKA_VERIF",
            "enable": "none needed: all observation is through public API and wrappers installed by the harness at run "
                      "time; the guard name is reserved (no in-repo hook commits)",
            "baseline_off_cmd": "cd /repo && /venv/bin/python -m pytest -ra -q -p no:cacheprovider --timeout=900 "
                                "--continue-on-collection-errors",
            "source_commits": [],
            "add_only": True,
        },
        "engines": [{"name": n, "path": f"/verif/tla/{n}.tla", "serves_properties": sorted(p for p in CHECKS if CHECKS[p]["engine"] == n),
                     "kind_free_text": "TLA+ module checked with TLC; bound to the code by replay/trace validation (pkv/props)"}
                    for n in sorted({c["engine"] for c in CHECKS.values()})],
        "checks": checks,
        "notes": "Fix commits in /repo and known findings: /verif/known_findings.jsonl. Design: /verif/DESIGN.md.",
        "not_applicable": [{"property_id": p, "reason": r} for p, r in sorted(NOT_APPLICABLE.items())],
    }
    return man


if __name__ == "__main__":
    with open(os.path.join(VERIF, "MANIFEST.json"), "w") as fh:
        json.dump(build(), fh, indent=1)
    print("MANIFEST.json written:", len(CHECKS), "checks")
