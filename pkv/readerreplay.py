"""Concretiser for PdbReader cases: abstract record sequences -> PDB text -> real get_atom_lines_from_pdb."""
import io

from . import pdbio

IC = {" ": " ", "a": "A", "b": "B"}


OTHER_RECORDS = ["REMARK 300 ignorable record", "ENDMDL", "ANISOU    1  N   ALA A   1     2406   1892   1614    198    519   -328",
                 "CONECT    1    2", "SIGATM    1  N   ALA A   1       0.010   0.010   0.010  0.00  0.00", "END", "MASTER        0",
                 "SEQRES   1 A    2  ALA SER", "LINK", "ATOMS", "HETNAM     HOH WATER", "TERM", "MODELS"]


def concretise(seq):
    """Returns (text, line_of_record) - one PDB line per abstract record; coordinates identify records."""
    lines = []
    for i, r in enumerate(seq):
        k = r["k"]
        if k == "TER":
            lines.append("TER   ")
        elif k == "MODEL":
            lines.append("MODEL     %4d" % r["m"])
        elif k == "OTHER":
            # any record type other than ATOM / HETATM / MODEL / TER, also those that look structural
            lines.append(OTHER_RECORDS[(i + len(seq)) % len(OTHER_RECORDS)])
        else:
            rn = {"AA": "ALA", "AB": "SER"}.get(r["rn"], "HOH")
            nm = r["nm"]
            if nm == "N":
                name, el = "N", "N"
            elif nm == "OXT":
                name, el = "OXT", "O"
            elif nm == "H":
                name, el = "H", "H"
            else:
                name, el = ("CB", "C") if r["rn"] in ("AA", "AB") else ("O", "O")
            x, y, z = 1000 + 1537 * i, 2000 + 11 * i, 3000 - 7 * i
            lines.append(pdbio.atom_line(k, serial=i + 1, name=name, alt=r["alt"], resn=rn, chain=r["ch"], num=r["num"],
                                         icode=IC.get(r["ic"], r["ic"]), x=x, y=y, z=z, elem=el))
    return "\n".join(lines) + "\n"


def real_out(text, nrec, chains, keep_h, ignore_residues):
    """Run the real reader; returns list per record: None (skipped) or (conf, terminal)."""
    from propka.input import get_atom_lines_from_pdb
    out = [None] * nrec
    it = get_atom_lines_from_pdb(io.StringIO(text), ignore_residues=ignore_residues, keep_protons=keep_h,
                                 chains=sorted(chains) if chains else None)
    for conf, atom in it:
        i = int(round((atom.x * 1000 - 1000) / 1537))
        out[i] = (conf, atom.terminal or "-")
    return out


def expected_out(decl):
    """TLC's DeclOut -> same shape as real_out."""
    res = []
    for o in decl:
        if o["term"] == "skip":
            res.append(None)
        else:
            res.append(("%d%s" % (o["conf"][0], o["conf"][1]), o["term"]))
    return res


def classify(seq, exp, got):
    """A stable key describing the first disagreement."""
    for i, (e, g) in enumerate(zip(exp, got)):
        if e != g:
            r = seq[i]
            what = "terminus" if (e and g and e[0] == g[0]) else "conformation" if (e and g) else "filter"
            ctxt = []
            if any(x["k"] == "MODEL" for x in seq[:i]):
                ctxt.append("after-MODEL")
            if any(x["k"] == "TER" for x in seq[:i]):
                ctxt.append("after-TER")
            if any(x.get("nm") == "OXT" for x in seq[:i]):
                ctxt.append("after-OXT")
            twins = any(x.get("k") in ("ATOM", "HETATM") and x["num"] == r["num"] and (x["ch"], x["ic"]) != (r["ch"], r["ic"])
                        for x in seq[:i])
            if twins:
                ctxt.append("same-number-other-residue")
            return f"{what}:{r.get('nm')}:{'+'.join(ctxt) or 'plain'}:expected-{e and e[1]}-got-{g and g[1]}", i
    return None, None
