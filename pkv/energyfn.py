"""Binding of tla/Energy.tla (distance laws of hydrogen_bond_energy, coulomb_energy, calculate_pair_weight,
check_buried) to the real functions.

M  MC_Energy: the code-shaped case splits satisfy the clauses (zero at and beyond the outer cut-off, full value up to the
   inner one, bounded by the configured maximum, monotone) on grids around every break point.
G  Gen_Energy emits every case with its exact value as a fraction; the real function is called with the same arguments.
   A real value that breaks a clause is a violation of the hosting property (C05: nothing beyond the range; C16: within
   the configured maximum, not negative); any other difference from the exact value is a MODEL-DRIFT note.
"""
from . import tlc


class _P:
    pass


def run(ctx, clauses, thorough=False):
    import propka.energy as en
    out = []
    r = tlc.run("MC_Energy", "MC_Energy.cfg", timeout=1800)
    ctx.add_tlc(r, "distance laws of single interactions (hydrogen bond, Coulomb, pair weight, buried pair)")
    if not r.ok:
        raise tlc.TLCError("spec-level failure in MC_Energy:\n" + r.stdout[-3000:])
    g = tlc.run("MC_Energy", "Gen_Energy_t.cfg" if thorough else "Gen_Energy.cfg", workers=1, timeout=1800)
    ctx.add_tlc(g, "interaction-law case generator (exact values)")
    if not g.ok:
        raise tlc.TLCError("generator failed:\n" + g.stdout[-3000:])
    drift = None
    seen = set()
    if (en.COMBINED_NUM_BURIED_MAX, en.SEPARATE_NUM_BURIED_MAX) != (900, 400):
        ctx.note("MODEL-DRIFT: buried-pair constants of the working tree differ from Energy.tla's (900, 400)")
    for x in g.printed:
        c, v = x["c"], x["v"]
        ctx.count()
        k = c["k"]
        try:
            if k == "hb":
                c1, c2 = c["cut"]
                got = en.hydrogen_bond_energy(c["d"] / 100.0, c["dmax"] / 100.0, [c1 / 100.0, c2 / 100.0], c["f"] / 10.0)
                exact = v[0] / v[1] / 1000.0
                bound = c["dmax"] * c["f"] / 1000.0
                beyond = c["d"] >= c2
                what = f"hydrogen_bond_energy({c['d'] / 100}, {c['dmax'] / 100}, [{c1 / 100}, {c2 / 100}], {c['f'] / 10})"
                if c["f"] and c["d"] <= c2:
                    ctx.nontriv(("hb", c["d"], c["dmax"], c1, c2, c["f"]))
            elif k == "cb":
                cc1, cc2 = c["cut"]
                p = _P()
                p.coulomb_cutoff1, p.coulomb_cutoff2 = cc1 / 100.0, cc2 / 100.0
                got = en.coulomb_energy(c["d"] / 100.0, c["w"] / 10.0, p)
                exact = v[0] / v[1]
                bound = 244.12 / (30.0 * cc1 / 100.0)
                beyond = c["d"] >= cc2
                what = f"coulomb_energy({c['d'] / 100}, {c['w'] / 10}, cut-offs {cc1 / 100}/{cc2 / 100})"
                if c["d"] < cc2:
                    ctx.nontriv(("cb", c["d"], c["w"], cc1, cc2))
            elif k == "pw":
                p = _P()
                p.Nmin, p.Nmax = c["nmin"], c["nmax"]
                got = en.calculate_pair_weight(p, c["nv1"], c["nv2"])
                exact = v[0] / v[1]
                bound, beyond = 1.0, False
                what = f"calculate_pair_weight(Nmin {c['nmin']}, Nmax {c['nmax']}, {c['nv1']}, {c['nv2']})"
            else:
                got = 1.0 if en.check_buried(c["nv1"], c["nv2"]) else 0.0
                exact = v[0] / v[1]
                bound, beyond = 1.0, False
                what = f"check_buried({c['nv1']}, {c['nv2']})"
        except Exception as ex:  # noqa
            key = f"energy:exception:{k}"
            if key not in seen:
                seen.add(key)
                out.append((key, f"{c}: {ex!r}", {"case": c}))
            continue
        if "zero" in clauses and beyond and got != 0.0 and f"energy:beyond-range:{k}" not in seen:
            seen.add(f"energy:beyond-range:{k}")
            out.append((f"energy:beyond-range:{k}", f"{what} = {got!r}: the pair is at or beyond the outer cut-off", {"case": c}))
        if "bound" in clauses and k in ("hb", "cb") and (got < 0.0 or got > bound + 1e-12) and f"energy:bound:{k}" not in seen:
            seen.add(f"energy:bound:{k}")
            out.append((f"energy:bound:{k}", f"{what} = {got!r}: outside [0, {bound!r}]", {"case": c}))
        if drift is None and abs(got - exact) > 1e-9:
            drift = f"{what} = {got!r}, Energy.tla gives {exact!r}"
    ctx.traces += 1
    ctx.extra["interaction_law_cases_replayed"] = len(g.printed)
    if drift:
        ctx.note("MODEL-DRIFT: a distance law differs from its transcription (clauses are judged on the real values): " + drift)
    return out
