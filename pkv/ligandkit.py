"""Synthetic ligand kit with ideal geometry (DESIGN appendix C): one small molecule per ligand group type the
classifier can emit.  Coordinates in milli-Angstrom, built in the xy-plane / on tetrahedral directions."""
import math

from . import pdbio


def pol(r, phi):
    a = math.radians(phi)
    return (int(round(1000 * r * math.cos(a))), int(round(1000 * r * math.sin(a))), 0)


def tet(i, r):
    d = [(1, 1, 1), (1, -1, -1), (-1, 1, -1), (-1, -1, 1)][i]
    n = math.sqrt(3)
    return tuple(int(round(1000 * r * c / n)) for c in d)


def add(p, q):
    return tuple(a + b for a, b in zip(p, q))


# name -> (residue name, [(atom name, element, xyz)], expected group types)
def molecules():
    m = {}
    m["acetate"] = ("ACT", [("C2", "C", (0, 0, 0)), ("O1", "O", pol(1.25, 60)), ("O2", "O", pol(1.25, -60)), ("C1", "C", pol(1.52, 180))], ["OCO"])
    n1 = pol(1.33, 0)
    m["guanidinium"] = ("GUA", [("C1", "C", (0, 0, 0)), ("N1", "N", n1), ("N2", "N", pol(1.33, 120)), ("N3", "N", pol(1.33, 240)),
                                ("C2", "C", add(n1, pol(1.47, 60)))], ["CG"])
    m["amidinium"] = ("AMD", [("C1", "C", (0, 0, 0)), ("N1", "N", pol(1.33, 60)), ("N2", "N", pol(1.33, -60)), ("C2", "C", pol(1.50, 180))], ["C2N"])
    m["ammonium"] = ("NH4", [("N1", "N", (0, 0, 0))], ["N30"])
    m["methylamine"] = ("MAM", [("N1", "N", (0, 0, 0)), ("C1", "C", tet(0, 1.47))], ["N31"])
    m["dimethylamine"] = ("DMA", [("N1", "N", (0, 0, 0)), ("C1", "C", tet(0, 1.47)), ("C2", "C", tet(1, 1.47))], ["N32"])
    m["trimethylamine"] = ("TMA", [("N1", "N", (0, 0, 0)), ("C1", "C", tet(0, 1.47)), ("C2", "C", tet(1, 1.47)), ("C3", "C", tet(2, 1.47))], ["N33"])
    m["vinylamine"] = ("VAM", [("C1", "C", (0, 0, 0)), ("C2", "C", pol(1.34, 180)), ("C3", "C", pol(1.50, 60)), ("N1", "N", pol(1.38, -60))], ["NP1"])
    m["acetonitrile"] = ("ACN", [("C1", "C", (-1460, 0, 0)), ("C2", "C", (0, 0, 0)), ("N1", "N", (1160, 0, 0))], ["N1"])
    m["pyridine"] = ("PYR", [("N1", "N", pol(1.39, 0))] + [("C%d" % (i + 1), "C", pol(1.39, 60 * i)) for i in range(1, 6)], ["NAR"])
    nn = pol(1.33, -60)
    m["n-methylacetamide"] = ("NMA", [("C2", "C", (0, 0, 0)), ("C1", "C", pol(1.52, 180)), ("O1", "O", pol(1.23, 60)), ("N1", "N", nn),
                                      ("C3", "C", add(nn, pol(1.45, 0)))], ["NAM", "O2"])
    m["fluoromethane"] = ("FME", [("C1", "C", (0, 0, 0)), ("F1", "F", (1350, 0, 0))], ["F"])
    m["chloromethane"] = ("CLM", [("C1", "C", (0, 0, 0)), ("CL1", "Cl", (1770, 0, 0))], ["Cl"])
    m["bromomethane"] = ("BRM", [("C1", "C", (0, 0, 0)), ("BR1", "Br", (1940, 0, 0))], [])
    m["iodomethane"] = ("IOM", [("C1", "C", (0, 0, 0)), ("I1", "I", (2140, 0, 0))], [])
    m["methanol"] = ("MOH", [("C1", "C", (0, 0, 0)), ("O1", "O", (1430, 0, 0))], ["OH"])
    o1 = tet(0, 1.60)
    m["methylphosphate"] = ("MPO", [("P1", "P", (0, 0, 0)), ("O1", "O", o1), ("C1", "C", add(o1, tet(0, 1.43))), ("O2", "O", tet(1, 1.52)),
                                    ("O3", "O", tet(2, 1.52)), ("O4", "O", tet(3, 1.52))], ["O3", "OP", "OP", "OP"])
    m["dimethylether"] = ("DME", [("O1", "O", (0, 0, 0)), ("C1", "C", tet(0, 1.42)), ("C2", "C", tet(1, 1.42))], ["O3"])
    m["acetone"] = ("ACE", [("C2", "C", (0, 0, 0)), ("O1", "O", pol(1.22, 60)), ("C1", "C", pol(1.51, 180)), ("C3", "C", pol(1.51, -60))], ["O2"])
    m["methanethiol"] = ("MSH", [("C1", "C", (0, 0, 0)), ("S1", "S", (1820, 0, 0))], ["SH"])
    return m


def lines(name, origin, chain="L", num=500, serial0=5000):
    resn, atoms, _ = molecules()[name]
    out = []
    for k, (an, el, xyz) in enumerate(atoms):
        x, y, z = add(origin, xyz)
        out.append(pdbio.atom_line("HETATM", serial0 + k, an, " ", resn, chain, num, " ", x, y, z, elem=el))
    return out


def expected_types(name):
    return molecules()[name][2]
