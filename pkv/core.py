"""Check context: violations, known findings, replays, evidence."""
import hashlib
import json
import os
import re
import sys
import time
import traceback

VERIF = os.path.dirname(os.path.dirname(os.path.abspath(__file__)))
EVIDENCE_DIR = os.path.join(VERIF, "evidence")
REPLAY_DIR = os.path.join(VERIF, "replays")
FINDINGS_FILE = os.path.join(VERIF, "known_findings.jsonl")
REPO = os.environ.get("PKV_REPO", "/repo")


def load_findings():
    out = []
    if os.path.exists(FINDINGS_FILE):
        for line in open(FINDINGS_FILE):
            line = line.strip()
            if line and not line.startswith("#"):
                out.append(json.loads(line))
    return out


class Ctx:
    """One run of one property's check."""

    def __init__(self, pid, tier="quick", seed=0, replay=None):
        self.pid = pid
        self.tier = tier
        self.seed = seed
        self.replay = replay
        self.t0 = time.time()
        self.states = 0
        self.transitions = 0
        self.traces = 0          # behaviours/traces validated against the implementation
        self.evaluations = 0
        self.nontrivial = set()  # distinct non-trivial case keys (hashed)
        self.samples = []
        self.violations = []     # dicts(key, what, replay)
        self.known_hits = []
        self.notes = []
        self.assumptions = []
        self.extra = {}
        self.tlc_runs = []
        self.exhaustive = None
        self.rule = ""
        self._findings = [f for f in load_findings() if f.get("property") == pid]
        self._seen_keys = set()

    # ---- bookkeeping ---------------------------------------------------
    def thorough(self):
        return self.tier == "thorough"

    def add_tlc(self, res, label):
        self.states += res.distinct
        self.transitions += res.generated
        self.tlc_runs.append({"label": label, "distinct_states": res.distinct,
                              "states_generated": res.generated, "depth": res.depth,
                              "wall_s": round(res.wall, 2)})

    def count(self, n=1):
        self.evaluations += n

    def nontriv(self, key):
        self.nontrivial.add(hashlib.blake2b(repr(key).encode(), digest_size=8).digest())

    def sample(self, s, limit=6):
        if len(self.samples) < limit:
            self.samples.append(s)

    def note(self, s):
        self.notes.append(s)
        print("NOTE:", s)

    # ---- verdicts -------------------------------------------------------
    def violation(self, key, what, payload=None):
        """Report that the real code contradicts the declarative face on a concrete case.

        key: stable identification of the failing input / call site (matched against
        known_findings.jsonl). payload: JSON-serialisable replay information.
        """
        if key in self._seen_keys:
            return
        self._seen_keys.add(key)
        for f in self._findings:
            if f.get("status", "known") != "known":
                continue
            if re.fullmatch(f["match"], key):
                self.known_hits.append({"key": key, "what": what, "finding": f.get("id")})
                print(f"KNOWN-FINDING: property={self.pid} {f.get('id','')} {key}: {what}")
                return
        h = hashlib.blake2b(key.encode(), digest_size=6).hexdigest()
        d = os.path.join(REPLAY_DIR, self.pid, h)
        os.makedirs(d, exist_ok=True)
        path = os.path.join(d, "case.json")
        with open(path, "w") as fh:
            json.dump({"property": self.pid, "key": key, "what": what, "payload": payload,
                       "tier": self.tier, "seed": self.seed}, fh, indent=1, default=str)
        self.violations.append({"key": key, "what": what, "replay": path})
        print(f"VIOLATION property={self.pid} replay={path}")
        print(f"  {key}: {what}")

    # ---- evidence ---------------------------------------------------------
    def write_evidence(self):
        os.makedirs(EVIDENCE_DIR, exist_ok=True)
        cov = {
            "states": int(self.states),
            "transitions": int(self.transitions),
            "traces_validated_against_impl": int(self.traces),
            "samples": self.samples[:8] or ["(none)"],
            "evaluations": int(self.evaluations),
            "distinct_nontrivial": len(self.nontrivial),
            "rule": self.rule,
            "tlc_runs": self.tlc_runs,
            "known_findings_reported": self.known_hits[:40],
            "notes": self.notes[:40],
        }
        if self.exhaustive is not None:
            cov["exhaustive"] = bool(self.exhaustive)
        cov.update(self.extra)
        ev = {
            "property_id": self.pid,
            "tier": self.tier,
            "seed": int(self.seed),
            "level": "model_checking",
            "coverage": cov,
            "assumptions": self.assumptions,
            "wall_s": round(time.time() - self.t0, 2),
            "violations": len(self.violations),
        }
        with open(os.path.join(EVIDENCE_DIR, f"{self.pid}.json"), "w") as fh:
            json.dump(ev, fh, indent=1, default=str)
        return ev


def propka_env():
    """Make sure propka is imported from the working tree under test."""
    if REPO not in sys.path:
        sys.path.insert(0, REPO)
    os.environ.setdefault("PYTHONDONTWRITEBYTECODE", "1")
    sys.dont_write_bytecode = True
    import logging
    logging.getLogger("propka").setLevel(logging.ERROR)
    logging.getLogger("PROPKA").setLevel(logging.ERROR)
