---------------------------- MODULE MC_PkaFile ----------------------------
(* all files write_pka can compose for up to MaxG printed groups of up to MaxR rows: accepted, counters faithful; every    *)
(* one-line damage (a line dropped, doubled, two neighbours swapped) is noticed                                            *)
EXTENDS PkaFile, TLC
CONSTANTS MaxG, MaxR, MaxN
VARIABLES p, stage
vars == <<p, stage>>
RowSeqs == UNION {[1..n -> 1..MaxR] : n \in 0..MaxG}
Params == [rows : RowSeqs, note : {0, 1}, nsum : 0..MaxG, fold : -1..MaxN, opt : {0, 1}, r80 : {0, 1}, stab : {0, 1},
           ch : -1..MaxN, pi : {0, 1}]
(* two steps, so that TLC's workers share the enumeration: tables first, profile parts second *)
Init == /\ p \in {q \in Params : q.fold = -1 /\ q.opt = 0 /\ q.r80 = 0 /\ q.stab = 0 /\ q.ch = -1 /\ q.pi = 0}
        /\ stage = 0
Next == /\ stage = 0 /\ stage' = 1
        /\ p' \in {q \in Params : q.rows = p.rows /\ q.note = p.note /\ q.nsum = p.nsum}
Spec == Init /\ [][Next]_vars
W == Write(p)
WrittenAccepted == stage = 1 => Accepted(W)
CountersFaithful == stage = 1 => Counts(W) = Expected(p)
Drop(s, i) == SubSeq(s, 1, i - 1) \o SubSeq(s, i + 1, Len(s))
Dup(s, i) == SubSeq(s, 1, i) \o SubSeq(s, i, Len(s))
Swp(s, i) == [j \in 1..Len(s) |-> IF j = i THEN s[i + 1] ELSE IF j = i + 1 THEN s[i] ELSE s[j]]
Noticed(s) == ~Accepted(s) \/ Counts(s) # Expected(p)
(* lines of the free-text head (banner, references) and blank lines between group blocks carry no information *)
Free(t) == t \in {"pre", "blank", "rule"}
DamageNoticed == stage = 1 =>
   /\ \A i \in 1..Len(W) : (~Free(W[i]) \/ i > 11) => (Drop(W, i) = W \/ Noticed(Drop(W, i)) \/ (W[i] = "blank" /\ i < Len(W) /\ W[i + 1] \in {"blank", "note", "rule"}))
   /\ \A i \in 1..Len(W) : ~Free(W[i]) => Noticed(Dup(W, i))
   /\ \A i \in 1..(Len(W) - 1) : (W[i] # W[i + 1] /\ ~Free(W[i]) /\ ~Free(W[i + 1])) => Noticed(Swp(W, i))
=============================================================================
