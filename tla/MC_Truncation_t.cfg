SPECIFICATION Spec
CONSTANTS
  MaxAll = 12
  Emit = FALSE
INVARIANT Lemmas
CHECK_DEADLOCK FALSE
