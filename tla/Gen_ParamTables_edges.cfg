SPECIFICATION Spec
CONSTANTS
  Keys = {"A", "B", "C"}
  Syms = {"N", "0.5"}
  PVals <- MC_PVals
  CutVals = {2, 3}
  MaxKeys = 3
  MaxLines = 3
  Emit = TRUE
INVARIANT MatSym
INVARIANT PairSym
INVARIANT Fallback
INVARIANT SquareLinked
INVARIANT Refines
INVARIANT RowsComplete
INVARIANT EmitInv
CHECK_DEADLOCK FALSE
