SPECIFICATION Spec
CONSTANTS
  Widths = {4,5}
  SegLen = 3000
  SegStarts <- BoundaryStarts
  Emit = FALSE
INVARIANT RoundTrip
INVARIANT EncodeAgree
INVARIANT InRangeInv
INVARIANT JudgeAgree
INVARIANT LastIsMax
PROPERTY Monotone
CHECK_DEADLOCK FALSE
