SPECIFICATION Spec
CONSTANTS
  MaxDet = 2
  EqualLabels = TRUE
  Emit = TRUE
INVARIANT EmitInv

CONSTRAINT StepZeroShared
CHECK_DEADLOCK FALSE
