SPECIFICATION Spec
CONSTANTS
  MaxDet = 2
  Emit = TRUE
INVARIANT EmitInv

CONSTRAINT StepZeroShared
CHECK_DEADLOCK FALSE
