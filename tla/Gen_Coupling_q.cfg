SPECIFICATION Spec
CONSTANTS
  MaxDet = 2
  EqualLabels = TRUE
  EmitMod = 5
  EmitRes = 0
  Emit = TRUE
INVARIANT EmitInv

CONSTRAINT StepZeroShared
CHECK_DEADLOCK FALSE
