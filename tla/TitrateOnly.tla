---------------------------- MODULE TitrateOnly ----------------------------
(***************************************************************************)
(* lib.parse_res_string / parse_res_list and the titrate-only filter of    *)
(* ConformationContainer.init_group (C14).                                 *)
(*                                                                         *)
(* Residues are <<chain, number, icode>>; a site belongs to a residue.     *)
(* Declarative face: with list L exactly the sites of listed residues      *)
(* titrate (matched on all three components), the others stay as           *)
(* non-titrating groups; entries naming no residue change nothing.         *)
(* Mechanism face: the parser's two-stage int() attempt, and membership of *)
(* the triple (chain_id, res_num, icode) in the parsed list.               *)
(***************************************************************************)
EXTENDS Integers, Sequences, FiniteSets, TLC

(* ---- parser: an entry is [chain, neg, digits, tail] where tail is the character after the digits
   ("" none, a letter = insertion code, "x:" = a second colon, "9" cannot occur) ---------------------- *)
Bad == <<"ValueError">>
DeclParse(e) ==
   IF e.colons # 1 THEN Bad
   ELSE IF e.digits = <<>> THEN Bad                                   \* no number at all
   ELSE IF e.tail = "" THEN << e.chain, (IF e.neg THEN -1 ELSE 1) * e.num, " " >>
   ELSE IF e.tail \in {"A", "B", "a"} THEN << e.chain, (IF e.neg THEN -1 ELSE 1) * e.num, e.tail >>
   ELSE Bad                                                           \* two trailing letters etc.
(* mechanism: int(s) ; on failure int(s[:-1]) with s[-1] as insertion code *)
MechParse(e) ==
   IF e.colons # 1 THEN Bad
   ELSE LET whole == e.digits # <<>> /\ e.tail = ""                    \* int(resnum_str) succeeds
            butlast == e.digits # <<>> /\ e.tail \in {"A", "B", "a"}  \* int(resnum_str[:-1]) succeeds
        IN IF whole THEN << e.chain, (IF e.neg THEN -1 ELSE 1) * e.num, " " >>
           ELSE IF butlast THEN << e.chain, (IF e.neg THEN -1 ELSE 1) * e.num, e.tail >>
           ELSE Bad

(* ---- filter ------------------------------------------------------------------------------------------ *)
(* sites: set of [res, base] (base = titratable without the option); L: set of residues or "none" *)
Titrates(site, L, opt) == site.base /\ (~opt \/ site.res \in L)
Reported(sites, L, opt) == {s \in sites : Titrates(s, L, opt)}
AllListedIsNoOption(sites, residues) == Reported(sites, residues, TRUE) = Reported(sites, {}, FALSE)
UnknownIgnored(sites, residues, L, extra) ==
   extra \cap residues = {} => Reported(sites, L \cup extra, TRUE) = Reported(sites, L, TRUE)
=============================================================================
