SPECIFICATION Spec
CONSTANTS
  B = 251
  ThH = 150
  ThD = 200
  ThSS = 250
  ThFF = 170
  Offsets <- CodeOffsets
  BaseOff = {0, 250}
  BaseCells <- MC_BaseCells
  Disp <- MC_DispQ
  ElPairs <- MC_ElPairs
  Third = FALSE
  Emit = FALSE
INVARIANT BondsAreAllPairs
INVARIANT Irreflexive
INVARIANT BridgeBoth
INVARIANT Sound
INVARIANT Locality
INVARIANT OffsetsOK
CHECK_DEADLOCK FALSE
