---------------------------- MODULE MC_Truncation ----------------------------
EXTENDS Truncation, Json
CONSTANTS MaxAll, Emit     \* templates with at most MaxAll atoms: all subsets; larger ones: subsets of size <= 2 or >= n-2
VARIABLES t, removed
vars == <<t, removed>>
Subsets(tt) == LET n == Cardinality(Names(tt)) IN
               IF n <= MaxAll THEN SUBSET Names(tt)
               ELSE {s \in SUBSET Names(tt) : Cardinality(s) <= 2}
Init == t \in DOMAIN Templates /\ removed = {}
Pick == removed = {} /\ \E s \in Subsets(t) : s # {} /\ removed' = s /\ t' = t
Spec == Init /\ [][Pick]_vars
Lemmas == /\ OnlyDefiningAtomMatters(t, removed)
          /\ \A a \in removed : Monotone(t, removed \ {a}, removed)
EmitInv == (Emit /\ removed # {}) => PrintT(ToJson([t |-> t, removed |-> removed, site |-> SiteRemains(t, removed)]))
=============================================================================
