---------------------------- MODULE Trace_PkaFile ----------------------------
(* Code -> spec: the written .pka file of a real run as a sequence of line classes (R.toks), folded over the phase machine  *)
(* of PkaFile.tla, plus what the API says exists (charge rows, folding profile, optimum, ranges, pI, coupling note).        *)
EXTENDS PkaFile, Json, IOUtils, TLC
Trace == JsonDeserialize(IOEnv.TRACE_FILE)
VARIABLE i
Init == i \in 1..Len(Trace)
Next == UNCHANGED i
Spec == Init /\ [][Next]_i
R == Trace[i]
S == Fold(R.toks)
(* the file is a sentence of the layout grammar: every section once, in order, nothing after the pI line *)
F_Accepted == S.ph = "done"
(* the determinant table and the summary list the same number of groups *)
F_TablesAgree == S.ph = "done" => S.ndet = S.nsum
(* what the API computes is what the file shows: one charge row per grid node, each profile part present iff it exists *)
F_Profiles == S.ph = "done" =>
                 /\ (R.nch >= 0 => S.hasch = 1 /\ S.nch = R.nch) /\ (R.nch < 0 => S.hasch = 0)
                 /\ S.hasfold = R.hasfold /\ S.hasopt = R.hasopt /\ S.hasr80 = R.hasr80 /\ S.hasstab = R.hasstab
                 /\ S.haspi = R.haspi
(* the note on coupled residues is printed iff coupled residues were found and their display was not requested *)
F_Note == S.ph = "done" => S.note = 2 * R.note
=============================================================================
