SPECIFICATION Spec
CONSTANTS
  G = {1, 2, 3, 4, 5}
  Pairs <- MC_Pairs32
  P = {38, 65}
  V = {0, 10}
  Emit = FALSE
INVARIANT FixedPointAfterConvergence
INVARIANT ClusterIndependence
INVARIANT Terminates
CHECK_DEADLOCK FALSE
