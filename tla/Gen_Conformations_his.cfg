SPECIFICATION Spec
CONSTANTS
  MaxLen = 3
  Models = {1, 2}
  Alts = {" ", "B"}
  Keys <- MC_Keys
  ResNames = {"ASP", "HIS"}
  AtomNames = {"CB", "CG"}
  WithIcode = TRUE
  Emit = TRUE
INVARIANT EmitInv

CHECK_DEADLOCK FALSE
