SPECIFICATION Spec
CONSTANTS
  MaxBonds = 3
  N = 4
  MaxEdges = 3
  MaxHosts = 3
  Types = {"O.co2", "N.pl3"}
  PkVals = {3, 4}
  Emit = FALSE
INVARIANT AgreeCoupled
INVARIANT Symmetric
INVARIANT AgreeSystems
INVARIANT Partition
INVARIANT PenaltyOK
INVARIANT Titrates
INVARIANT TiedOKNoTies
CHECK_DEADLOCK FALSE
