--------------------------- MODULE MC_Determinants ---------------------------
EXTENDS Determinants
CONSTANTS DivisorAll
(* averaging lemma: two/three conformations, each satisfying the identity with the same model pKa *)
ConfRec == {r \in [has : BOOLEAN, pka : 0..8, model : {4}, des : {0, 1}, d : {-1, 0, 2}] : r.pka = r.model + r.des + r.d}
AvgLemma == \A a \in ConfRec, b \in ConfRec, c \in ConfRec : AvgIdentity(<<a, b, c>>, DivisorAll)
ASSUME AvgLemma
=============================================================================
