SPECIFICATION Spec
CONSTANTS
  MaxLen = 3
  Models = {1, 2}
  Alts = {" ", "B"}
  Keys <- MC_Keys
  ResNames = {"ASP", "VAL"}
  AtomNames = {"CA", "CB"}
  WithIcode = TRUE
  Emit = FALSE
INVARIANT NeverMerges
CHECK_DEADLOCK FALSE
