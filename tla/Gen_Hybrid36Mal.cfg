SPECIFICATION Spec
CONSTANTS
  MaxLen = 4
  Alphabet = {0, 9, 10, 35, 36, 61, 62, 63, 64, 65, 66, 67}
INVARIANT JudgeTotal
INVARIANT ValueMeansStandard
INVARIANT EmitInv
CHECK_DEADLOCK FALSE
