------------------------------ MODULE Pipeline ------------------------------
(***************************************************************************)
(* The stage structure of one run (propka.run.single):                     *)
(*   read_molecule_file : read_pdb, top_up_conformations,                  *)
(*       setup_bonding_and_protonation, extract_groups (per conformation), *)
(*       sort_atoms (per conformation), find_covalently_coupled_groups     *)
(*   MolecularContainer.calculate_pka : ConformationContainer.calculate_pka*)
(*       (per conformation; coupling_effects nested inside it),            *)
(*       find_non_covalently_coupled_groups (per conformation),            *)
(*       average_of_conformations                                          *)
(*   write_pka                                                             *)
(*                                                                         *)
(* One transition function Apply(st, e) is the single source of truth: the *)
(* specification's Next is "some event applies", and a recorded execution  *)
(* is accepted iff folding Apply over its events never rejects             *)
(* (tla/Trace_Pipeline.tla).  Events carry the cheap scalars the stage     *)
(* promises something about: atom and group counts, the number of groups   *)
(* whose total differs from the sum of their contributions (dirty), and    *)
(* whether the coupling analysis left every determinant list and every     *)
(* value as it found them (neutral).                                       *)
(***************************************************************************)
EXTENDS Integers, Sequences, FiniteSets, TLC

Stages == <<"read", "complete", "prepared", "grouped", "sorted", "covalent", "penalised", "scored", "analysed">>
Rank(s) == CHOOSE k \in 1..Len(Stages) : Stages[k] = s

Reject == [ms |-> "rejected"]
Start  == [ms |-> "init", confs |-> <<>>, cs |-> <<>>, ng |-> <<>>, na |-> <<>>]

IdxOf(st, c) == CHOOSE k \in 1..Len(st.confs) : st.confs[k] = c
Known(st, c) == \E k \in 1..Len(st.confs) : st.confs[k] = c
All(st, S) == \A k \in 1..Len(st.cs) : st.cs[k] \in S
(* conformation names arrive sorted: by model number, then by letter (conformation_sorter) *)
SortedNames(names) == \A i, j \in 1..Len(names) : i < j =>
                         \/ names[i][1] < names[j][1]
                         \/ (names[i][1] = names[j][1] /\ names[i][2] < names[j][2])

(* a per-conformation step from stage `from` to stage `to` inside its loop: nobody lags behind `from`, nobody is past `to` *)
StepOK(st, c, from, to) ==
  /\ st.ms = "molecule" /\ Known(st, c) /\ st.cs[IdxOf(st, c)] = from
  /\ All(st, {from, to})
Move(st, c, to) == [st EXCEPT !.cs[IdxOf(st, c)] = to]

Apply(st, e) ==
  CASE e.ev = "Read" ->
         IF st.ms = "init" /\ Len(e.confs) >= 1 /\ SortedNames(e.confs) /\ Len(e.na) = Len(e.confs)
            /\ \A k \in 1..Len(e.na) : e.na[k] >= 1
         THEN [ms |-> "molecule", confs |-> e.confs, cs |-> [k \in 1..Len(e.confs) |-> "read"],
               ng |-> [k \in 1..Len(e.confs) |-> -1], na |-> e.na]
         ELSE Reject
    [] e.ev = "TopUp" ->
         \* completion never removes an atom
         IF st.ms = "molecule" /\ All(st, {"read"}) /\ Len(e.na) = Len(st.na) /\ \A k \in 1..Len(e.na) : e.na[k] >= st.na[k]
         THEN [st EXCEPT !.cs = [k \in 1..Len(st.cs) |-> "complete"], !.na = e.na]
         ELSE Reject
    [] e.ev = "Prepare" ->
         \* bonding and protonation: hydrogens may be added, nothing is lost
         IF st.ms = "molecule" /\ All(st, {"complete"}) /\ Len(e.na) = Len(st.na) /\ \A k \in 1..Len(e.na) : e.na[k] >= st.na[k]
         THEN [st EXCEPT !.cs = [k \in 1..Len(st.cs) |-> "prepared"], !.na = e.na]
         ELSE Reject
    [] e.ev = "Extract" ->
         IF StepOK(st, e.c, "prepared", "grouped") /\ e.ng >= 0
         THEN [Move(st, e.c, "grouped") EXCEPT !.ng[IdxOf(st, e.c)] = e.ng]
         ELSE Reject
    [] e.ev = "Sort" ->
         IF StepOK(st, e.c, "grouped", "sorted") THEN Move(st, e.c, "sorted") ELSE Reject
    [] e.ev = "CovFind" ->
         IF StepOK(st, e.c, "sorted", "covalent") /\ e.ng = st.ng[IdxOf(st, e.c)] THEN Move(st, e.c, "covalent") ELSE Reject
    [] e.ev = "Penalise" ->
         \* coupling_effects runs inside calculate_pka of one conformation: at most one conformation is in between
         IF st.ms = "molecule" /\ Known(st, e.c) /\ st.cs[IdxOf(st, e.c)] = "covalent" /\ All(st, {"covalent", "scored"})
         THEN Move(st, e.c, "penalised") ELSE Reject
    [] e.ev = "Score" ->
         \* on return every total is the sum of its contributions and the group list is what extraction produced
         IF st.ms = "molecule" /\ Known(st, e.c) /\ st.cs[IdxOf(st, e.c)] = "penalised"
            /\ e.dirty = 0 /\ e.ng = st.ng[IdxOf(st, e.c)]
         THEN Move(st, e.c, "scored") ELSE Reject
    [] e.ev = "NonCov" ->
         \* the coupling analysis observes: values and determinant multisets as before (unless the display of alternative
         \* states was requested, which leaves the last displayed state behind), same groups, totals still fresh
         IF StepOK(st, e.c, "scored", "analysed") /\ (e.neutral \/ e.display) /\ e.dirty = 0 /\ e.ng = st.ng[IdxOf(st, e.c)]
         THEN Move(st, e.c, "analysed") ELSE Reject
    [] e.ev = "Average" ->
         IF st.ms = "molecule" /\ All(st, {"analysed"}) /\ e.dirty = 0 THEN [st EXCEPT !.ms = "averaged"] ELSE Reject
    [] e.ev = "Write" ->
         IF st.ms = "averaged" THEN [st EXCEPT !.ms = "written"] ELSE Reject
    [] OTHER -> Reject

(* ---- a recorded execution --------------------------------------------------------------------- *)
RECURSIVE Fold(_, _, _)
Fold(st, es, k) == IF k > Len(es) \/ st = Reject THEN <<st, k - 1>> ELSE Fold(Apply(st, es[k]), es, k + 1)
Accepted(es) == Fold(Start, es, 1)[1] # Reject
(* number of events consumed before the first rejection (all of them when accepted) *)
Consumed(es) == LET r == Fold(Start, es, 1) IN IF r[1] = Reject THEN r[2] - 1 ELSE r[2]
Complete(es) == Accepted(es) /\ Fold(Start, es, 1)[1].ms \in {"averaged", "written"}

(* ---- design-level invariants of any reachable state ------------------------------------------- *)
AverageAfterAll(st) == st.ms \in {"averaged", "written"} => All(st, {"analysed"})
OneInside(st) == st.ms = "molecule" => Cardinality({k \in 1..Len(st.cs) : st.cs[k] = "penalised"}) <= 1
(* loops are barriers: two conformations are never more than one loop apart, except inside calculate_pka
   where the nested penalty step adds one *)
Barrier(st) == st.ms = "molecule" =>
                 \A i, j \in 1..Len(st.cs) : Rank(st.cs[i]) - Rank(st.cs[j]) <= 2
GroupsKnownOnceGrouped(st) == st.ms = "molecule" =>
                 \A k \in 1..Len(st.cs) : (Rank(st.cs[k]) >= Rank("grouped")) <=> (st.ng[k] >= 0)
=============================================================================
