SPECIFICATION Spec
CONSTANTS
  KeyKind = "rid"
  MaxLen = 4
  Chains = {"A", "B"}
  Nums = {1, 2}
  Ics = {" ", "a"}
  Names = {"N", "X", "OXT"}
  Alts = {" "}
  Kinds = {"ATOM"}
  RNames = {"AA"}
  WithModel = FALSE
  WithOther = FALSE
  Emit = FALSE
  ChainSets <- CS_None
  KeepH = FALSE
INVARIANT Agree
CHECK_DEADLOCK FALSE
