------------------------------ MODULE RunHistory ------------------------------
(***************************************************************************)
(* Process-level state that survives a call of run.single / run.main (C03) *)
(*   valence  : group.PROTONATOR.valence_electrons - grows by el |-> 4 the *)
(*              first time an unknown element is met                       *)
(*   nccg     : coupled_groups.NCCG.parameters - (re)assigned at the start *)
(*              of every conformation's coupling analysis                  *)
(*   params   : the Parameters object run.main reads once and shares       *)
(*              between all files of one invocation                        *)
(* A run's observable result is modelled as the tuple of everything the    *)
(* calculation reads: content, options, the valence it used for each       *)
(* unknown element, the parameters the coupling analysis used, and the     *)
(* parameter object's state.  Purity: equal (content, options) => equal    *)
(* observation, whatever happened before.                                  *)
(* Hazard switches model realistic ways of losing purity; the faithful     *)
(* model has them all off, each self-test config turns one on.             *)
(***************************************************************************)
EXTENDS Integers, Sequences, FiniteSets, TLC

CONSTANTS Contents,       \* content ids
          Unknown,        \* contents that contain an element missing from the valence table
          Options,        \* option settings
          MaxRuns,
          HazardValence,  \* TRUE: the first encounter of an unknown element uses another default than later ones
          HazardNCCG,     \* TRUE: the coupling analysis reads NCCG.parameters before assigning them
          HazardParams,   \* TRUE: a run leaves a mark in the shared Parameters object (run.main only)
          HazardCache     \* TRUE: a value derived from the parameter file is cached at class/module level
                          \*       (first use wins for the whole process)

VARIABLES valence, nccg, mainParams, hist, cache
vars == <<valence, nccg, mainParams, hist, cache>>

Init == valence = {} /\ nccg = "unset" /\ mainParams = 0 /\ hist = <<>> /\ cache = "unset"
(* which parameter file an option setting selects *)
ParamFile(o) == IF o = "p" THEN "custom" ELSE "shipped"
CacheUsed(o, ch) == IF HazardCache /\ ch # "unset" THEN ch ELSE ParamFile(o)

ValenceUsed(c) == IF c \notin Unknown THEN 0
                  ELSE IF c \in valence THEN 4
                  ELSE IF HazardValence THEN 5 ELSE 4
NCCGUsed(o) == IF HazardNCCG THEN nccg ELSE o
Observation(c, o, shared) == <<c, o, ValenceUsed(c), NCCGUsed(o), shared, CacheUsed(o, cache)>>

(* run.single: own Parameters object *)
Single(c, o) ==
  /\ Len(hist) < MaxRuns
  /\ hist' = Append(hist, [key |-> <<c, o>>, obs |-> Observation(c, o, 0), via |-> "single"])
  /\ valence' = IF c \in Unknown THEN valence \cup {c} ELSE valence
  /\ nccg' = o
  /\ cache' = IF cache = "unset" THEN ParamFile(o) ELSE cache
  /\ UNCHANGED mainParams
(* run.main with files cs: one Parameters object for all of them *)
RECURSIVE MainRuns(_, _, _, _, _)
MainRuns(cs, o, val, nc, mp) ==
  IF cs = <<>> THEN <<>>
  ELSE LET c == Head(cs)
           vu == IF c \notin Unknown THEN 0 ELSE IF c \in val THEN 4 ELSE IF HazardValence THEN 5 ELSE 4
           nu == IF HazardNCCG THEN nc ELSE o
       IN <<[key |-> <<c, o>>, obs |-> <<c, o, vu, nu, mp, CacheUsed(o, cache)>>, via |-> IF mp = 0 /\ Len(cs) = 2 THEN "main1" ELSE "main2"]>>
          \o MainRuns(Tail(cs), o, IF c \in Unknown THEN val \cup {c} ELSE val, o, IF HazardParams THEN mp + 1 ELSE mp)
Main(cs, o) ==
  /\ Len(hist) + Len(cs) <= MaxRuns
  /\ hist' = hist \o MainRuns(cs, o, valence, nccg, 0)
  /\ valence' = valence \cup {cs[k] : k \in {j \in 1..Len(cs) : cs[j] \in Unknown}}
  /\ nccg' = o
  /\ cache' = IF cache = "unset" THEN ParamFile(o) ELSE cache
  /\ UNCHANGED mainParams

Next == \/ \E c \in Contents, o \in Options : Single(c, o)
        \/ \E c1 \in Contents, c2 \in Contents, o \in Options : Main(<<c1, c2>>, o)
Spec == Init /\ [][Next]_vars

Pure == \A a, b \in 1..Len(hist) : hist[a].key = hist[b].key => hist[a].obs = hist[b].obs
(* ... and equal to what the same call observes in a fresh process *)
FreshObs(c, o) == <<c, o, IF c \in Unknown THEN 4 ELSE 0, o, 0, ParamFile(o)>>
PureRef == \A a \in 1..Len(hist) : hist[a].obs = FreshObs(hist[a].key[1], hist[a].key[2])
Shape == [k \in 1..Len(hist) |-> [c |-> hist[k].key[1], o |-> hist[k].key[2], via |-> hist[k].via]]
=============================================================================
