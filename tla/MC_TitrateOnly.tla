--------------------------- MODULE MC_TitrateOnly ---------------------------
EXTENDS TitrateOnly, Json
CONSTANTS Emit
VARIABLES kind, e, L
vars == <<kind, e, L>>
Entries == [chain : {"A", " ", ""}, colons : {0, 1, 2}, neg : BOOLEAN, digits : {<<>>, <<1>>}, num : {7, 120},
            tail : {"", "A", "a", "AB", "-"}]
Residues == { <<"A", 7, " ">>, <<"A", 7, "A">>, <<"B", 7, " ">>, <<"A", -3, " ">> }
Phantom  == { <<"A", 999, " ">>, <<"C", 7, " ">> }
Sites == { [res |-> r, base |-> b] : r \in Residues, b \in BOOLEAN }
NoEntry == [chain |-> "", colons |-> 0, neg |-> FALSE, digits |-> <<>>, num |-> 7, tail |-> ""]
Init == \/ kind = "parse" /\ e \in Entries /\ L = {}
        \/ kind = "filter" /\ e = NoEntry /\ L \in SUBSET (Residues \cup Phantom)
Next == UNCHANGED vars
Spec == Init /\ [][Next]_vars
ParserAgrees == kind = "parse" => MechParse(e) = DeclParse(e)
FilterLaws == kind = "filter" =>
                 /\ AllListedIsNoOption(Sites, Residues)
                 /\ UnknownIgnored(Sites, Residues, L \cap Residues, L \cap Phantom)
                 /\ Reported(Sites, L, TRUE) \subseteq Reported(Sites, {}, FALSE)
EmitInv == Emit =>
   IF kind = "parse" THEN PrintT(ToJson([k |-> "parse", e |-> e, exp |-> DeclParse(e)]))
   ELSE PrintT(ToJson([k |-> "filter", L |-> L]))
=============================================================================
