SPECIFICATION Spec
CONSTANTS
  MaxLen = 4
  Models = {1, 2}
  Alts = {" ", "B"}
  Keys <- MC_KeysTwins
  ResNames = {"ASP"}
  AtomNames = {"CA", "CB"}
  WithIcode = FALSE
  Emit = FALSE
INVARIANT TopUpAgrees
INVARIANT NeverMerges
CHECK_DEADLOCK FALSE
