---------------------------- MODULE Trace_BondSet ----------------------------
(* Code -> spec: the bond set of one conformation of a full run (C11), all atoms included (kept input hydrogens too).   *)
(* R.pos[k] = <<x, y, z>> milli-Angstrom, R.el[k] the element, R.bonds = pairs <<a, b>> with a < b.                      *)
(* The bonds found are exactly the pairs the element-dependent distance criterion gives.                                *)
EXTENDS Integers, Sequences, FiniteSets, Json, IOUtils
CONSTANTS ThH, ThD, ThSS, ThFF          \* milli-Angstrom, from the working tree
Trace == JsonDeserialize(IOEnv.TRACE_FILE)
VARIABLE i
Init == i \in 1..Len(Trace)
Next == UNCHANGED i
Spec == Init /\ [][Next]_i
R == Trace[i]
N == Len(R.pos)
Abs(x) == IF x < 0 THEN -x ELSE x
Max4 == 3000          \* no threshold exceeds 3 A: squares are only taken of smaller differences (32-bit integers)
Near3(a, b) == Abs(R.pos[a][1] - R.pos[b][1]) < Max4 /\ Abs(R.pos[a][2] - R.pos[b][2]) < Max4 /\ Abs(R.pos[a][3] - R.pos[b][3]) < Max4
D2(a, b) == (R.pos[a][1] - R.pos[b][1]) * (R.pos[a][1] - R.pos[b][1]) + (R.pos[a][2] - R.pos[b][2]) * (R.pos[a][2] - R.pos[b][2])
            + (R.pos[a][3] - R.pos[b][3]) * (R.pos[a][3] - R.pos[b][3])
NH(a, b) == (IF R.el[a] = "H" THEN 1 ELSE 0) + (IF R.el[b] = "H" THEN 1 ELSE 0)
Criterion(a, b) ==
  /\ Near3(a, b)
  /\ \/ NH(a, b) = 1 /\ D2(a, b) < ThH * ThH
     \/ NH(a, b) = 0 /\ D2(a, b) < ThD * ThD
     \/ R.el[a] = "S" /\ R.el[b] = "S" /\ D2(a, b) < ThSS * ThSS
     \/ R.el[a] = "F" /\ R.el[b] = "F" /\ D2(a, b) < ThFF * ThFF
Declared == {<<a, b>> \in (1..N) \X (1..N) : a < b /\ Criterion(a, b)}
Observed == {<<R.bonds[k][1], R.bonds[k][2]>> : k \in 1..Len(R.bonds)}
(* exact ties are not judged here (coordinates of real files are not exact in binary) *)
Tie(a, b) == Near3(a, b) /\ D2(a, b) \in {ThH * ThH, ThD * ThD, ThSS * ThSS, ThFF * ThFF}
B_AllPairs == \A p \in Declared \cup Observed : (p \in Declared <=> p \in Observed) \/ Tie(p[1], p[2])
B_Irreflexive == \A k \in 1..Len(R.bonds) : R.bonds[k][1] # R.bonds[k][2]
=============================================================================
