SPECIFICATION Spec
CONSTANTS
  MaxLen = 3
  Models = {1}
  Alts = {" ", "B"}
  Keys <- MC_KeysChains
  ResNames = {"ASP", "VAL"}
  AtomNames = {"CA", "CB"}
  WithIcode = TRUE
  Emit = TRUE
INVARIANT EmitInv

CHECK_DEADLOCK FALSE
