------------------------------ MODULE Hybrid36 ------------------------------
(***************************************************************************)
(* Hybrid-36 atom serial fields (propka/hybrid36.py : decode).             *)
(*                                                                         *)
(* Glyphs are integers: 0..9 digits, 10..35 'A'..'Z', 36..61 'a'..'z',     *)
(* 62 space, 63 '-', 64 '+', 65 '_', 66 '.', 67 '*'.  A field is a         *)
(* sequence of glyphs.                                                     *)
(*                                                                         *)
(* Declarative face (from the property statement / the hybrid-36 format):  *)
(*   Encode(n, w)   the standard encoding of n in width w                  *)
(*   Hy36Value(f)   the integer a well-formed field denotes                *)
(*   Judge(f)       what decoding an arbitrary glyph string must do        *)
(* Mechanism face: the odometer Succ that walks the encoding order (the    *)
(* order in which a PDB writer hands out serials).                         *)
(***************************************************************************)
EXTENDS Integers, Sequences, FiniteSets, TLC

Digit == 0..9
Upper == 10..35
Lower == 36..61
Space == 62
Minus == 63
Plus  == 64
Under == 65
Dot   == 66
Star  == 67
Glyph == 0..67

RECURSIVE Pow(_, _)
Pow(b, e) == IF e = 0 THEN 1 ELSE b * Pow(b, e - 1)

(* value of a letter/digit glyph as a base-36 digit *)
D36(g) == IF g \in Digit THEN g ELSE IF g \in Upper THEN g - 10 + 10 ELSE g - 36 + 10

RECURSIVE Base(_, _)
Base(f, b) == IF f = <<>> THEN 0
              ELSE Base(SubSeq(f, 1, Len(f) - 1), b) * b + D36(f[Len(f)])

AllIn(f, S) == \A i \in 1..Len(f) : f[i] \in S

(* ---- ranges of a width-w field ---------------------------------------- *)
DecMax(w)   == Pow(10, w) - 1
DecMin(w)   == IF w = 1 THEN 0 ELSE -(Pow(10, w - 1) - 1)
UpperLo(w)  == Pow(10, w)
UpperHi(w)  == Pow(10, w) + 26 * Pow(36, w - 1) - 1
LowerLo(w)  == UpperHi(w) + 1
LowerHi(w)  == Pow(10, w) + 52 * Pow(36, w - 1) - 1

(* ---- the value a well-formed field denotes ----------------------------- *)
Hy36Value(f) ==
  LET w == Len(f) IN
  IF f[1] = Minus THEN -Base(SubSeq(f, 2, w), 10)
  ELSE IF f[1] \in Digit THEN Base(f, 10)
  ELSE IF f[1] \in Upper THEN Base(f, 36) - 10 * Pow(36, w - 1) + Pow(10, w)
  ELSE Base(f, 36) + 16 * Pow(36, w - 1) + Pow(10, w)
       \* lower-case 'a' has base-36 digit 10 as well; offset moves it past the upper block:
       \* Base - 10*36^(w-1) + 10^w + 26*36^(w-1)

(* ---- standard encoding -------------------------------------------------- *)
RECURSIVE Digits(_, _, _)
(* n >= 0 written with exactly k glyphs in base b using glyph offset for letters *)
Digits(n, k, b) == IF k = 0 THEN <<>> ELSE Append(Digits(n \div b, k - 1, b), n % b)

RECURSIVE NumDigits(_)
NumDigits(n) == IF n < 10 THEN 1 ELSE 1 + NumDigits(n \div 10)

ToUpperGlyphs(f) == [i \in 1..Len(f) |-> IF f[i] < 10 THEN f[i] ELSE f[i] - 10 + 10]
ToLowerGlyphs(f) == [i \in 1..Len(f) |-> IF f[i] < 10 THEN f[i] ELSE f[i] - 10 + 36]

(* Unpadded standard encoding of n for a field of width w *)
Encode(n, w) ==
  IF n < 0 THEN <<Minus>> \o Digits(-n, NumDigits(-n), 10)
  ELSE IF n <= DecMax(w) THEN Digits(n, NumDigits(n), 10)
  ELSE IF n <= UpperHi(w) THEN ToUpperGlyphs(Digits(n - Pow(10, w) + 10 * Pow(36, w - 1), w, 36))
  ELSE ToLowerGlyphs(Digits(n - Pow(10, w) - 16 * Pow(36, w - 1), w, 36))

InRange(n, w) == n >= DecMin(w) /\ n <= LowerHi(w)

(* ---- odometer: successor in encoding order (mechanism face) ------------- *)
(* Works on the fixed-width, right-justified form: spaces on the left.       *)
Pad(f, w) == [i \in 1..(w - Len(f)) |-> Space] \o f

RECURSIVE IncAt(_, _, _, _)
(* increment position i of f where positions use alphabet lo..hi and digits 0..9:
   order 0..9 then lo..hi *)
IncAt(f, i, lo, hi) ==
  IF f[i] = 9 THEN [f EXCEPT ![i] = lo]
  ELSE IF f[i] = hi THEN IncAt([f EXCEPT ![i] = 0], i - 1, lo, hi)   \* carry (never past position 1 by guard)
  ELSE [f EXCEPT ![i] = f[i] + 1]

AllHi(f, hi) == \A i \in 1..Len(f) : f[i] = hi

(* successor of a padded width-w field *)
Succ(p, w) ==
  LET body == SelectSeq(p, LAMBDA g : g # Space) IN
  IF body[1] = Minus THEN
      LET m == Base(SubSeq(body, 2, Len(body)), 10) IN
      IF m = 1 THEN Pad(<<0>>, w) ELSE Pad(<<Minus>> \o Digits(m - 1, NumDigits(m - 1), 10), w)
  ELSE IF body[1] \in Digit THEN
      LET m == Base(body, 10) IN
      IF m = DecMax(w) THEN [i \in 1..w |-> IF i = 1 THEN 10 ELSE 0]      \* 9..9 -> A0..0
      ELSE Pad(Digits(m + 1, NumDigits(m + 1), 10), w)
  ELSE IF body[1] \in Upper THEN
      IF AllHi(body, 35) THEN [i \in 1..w |-> IF i = 1 THEN 36 ELSE 0]     \* Z..Z -> a0..0
      ELSE IncAt(body, w, 10, 35)
  ELSE IncAt(body, w, 36, 61)

IsLast(p, w) == AllHi(p, 61)

(* ---- judging arbitrary glyph strings (malformed fields) ------------------ *)
RECURSIVE LStrip(_)
LStrip(f) == IF f # <<>> /\ f[1] = Space THEN LStrip(Tail(f)) ELSE f
RECURSIVE RStrip(_)
RStrip(f) == IF f # <<>> /\ f[Len(f)] = Space THEN RStrip(SubSeq(f, 1, Len(f) - 1)) ELSE f
Strip(f) == RStrip(LStrip(f))

Reject   == [k |-> "reject", v |-> 0]
Unjudged == [k |-> "unjudged", v |-> 0]
Val(n)   == [k |-> "value", v |-> n]

Judge(f) ==
  LET t == Strip(f) IN
  IF t = <<>> THEN Reject
  ELSE LET neg == t[1] = Minus
           u == IF neg THEN Tail(t) ELSE t IN
       IF u = <<>> THEN Reject
       ELSE IF u[1] \in Digit THEN
              IF AllIn(u, Digit) THEN
                   IF (u[1] = 0 /\ Len(u) > 1) \/ (neg /\ u = <<0>>) THEN Unjudged
                   ELSE Val(IF neg THEN -Base(u, 10) ELSE Base(u, 10))
              ELSE Reject
       ELSE IF u[1] \in Upper THEN
              IF ~AllIn(u, Upper \cup Digit) THEN Reject
              ELSE IF neg THEN Unjudged ELSE Val(Hy36Value(u))
       ELSE IF u[1] \in Lower THEN
              IF ~AllIn(u, Lower \cup Digit) THEN Reject
              ELSE IF neg THEN Unjudged ELSE Val(Hy36Value(u))
       ELSE Reject
=============================================================================
