------------------------------ MODULE Relations ------------------------------
(***************************************************************************)
(* Metamorphic relations between two runs of the program (C04-C08, C13,    *)
(* C14, C15, C03).  A run is a function conformation name -> sequence of   *)
(* group records (see pkv/observe.py); the harness has already expressed   *)
(* both runs in one identifier space (an atom of run A and its image in    *)
(* run B - same input line, found through coordinates - have the same gid).*)
(* Determinant lists arrive sorted by partner gid (bags, not sequences).   *)
(***************************************************************************)
EXTENDS Integers, Sequences, FiniteSets, TLC

Abs(x) == IF x < 0 THEN -x ELSE x
Near(x, y, e) == Abs(x - y) <= e
SetOf(s) == {s[j] : j \in 1..Len(s)}

(* ---- determinants ------------------------------------------------------- *)
(* entries: <<partner gid, label, value, partner type, partner charge, partner titratable>> *)
DetsSame(da, db, eps, labels) ==
   /\ Len(da) = Len(db)
   /\ \A k \in 1..Len(da) : k <= Len(db) =>
         /\ da[k][1] = db[k][1]
         /\ Near(da[k][3], db[k][3], eps)
         /\ (labels => da[k][2] = db[k][2])
DetsSameEnv(da, db, eps) ==      \* as DetsSame, also the partner's class
   /\ DetsSame(da, db, eps, FALSE)
   /\ \A k \in 1..Len(da) : k <= Len(db) => da[k][4] = db[k][4] /\ da[k][5] = db[k][5]

(* ---- groups ---------------------------------------------------------------- *)
SameKind(a, b)  == a.type = b.type /\ a.rtype = b.rtype /\ a.q100 = b.q100 /\ a.model6 = b.model6
                   /\ a.titr = b.titr /\ a.bridged = b.bridged /\ a.use = b.use /\ a.het = b.het
SameHeavyVals(a, b) == a.ev6 = b.ev6 /\ a.el6 = b.el6 /\ a.nv = b.nv /\ a.bur4 = b.bur4    \* exact
SameDesolv(a, b, eps) == Near(a.ev6, b.ev6, eps) /\ Near(a.el6, b.el6, eps) /\ a.nv = b.nv /\ Near(a.bur4, b.bur4, 1)
SameScore(a, b, eps, labels) ==
   /\ Near(a.pka6, b.pka6, eps * (2 + Len(a.sc) + Len(a.bb) + Len(a.cb)))
   /\ DetsSame(a.sc, b.sc, eps, labels) /\ DetsSame(a.bb, b.bb, eps, labels) /\ DetsSame(a.cb, b.cb, eps, labels)
   /\ a.ncc = b.ncc /\ a.cov = b.cov /\ a.pen = b.pen
SameLabels(a, b) == a.label = b.label /\ a.chain = b.chain /\ a.num = b.num /\ a.ic = b.ic /\ a.resn = b.resn
SameGroup(a, b, eps, labels) ==
   SameKind(a, b) /\ SameDesolv(a, b, eps) /\ SameScore(a, b, eps, labels) /\ (labels => SameLabels(a, b))

(* ---- runs -------------------------------------------------------------------- *)
Gids(gl) == {gl[k].gid : k \in 1..Len(gl)}
Unique(gl) == \A j, k \in 1..Len(gl) : j # k => gl[j].gid # gl[k].gid
(* every group of ga has exactly one partner in gb with the same identity, satisfying P *)
Matches(ga, gb, P(_, _)) == \A k \in 1..Len(ga) : \E j \in 1..Len(gb) : gb[j].gid = ga[k].gid /\ P(ga[k], gb[j])
SameGroups(ga, gb, P(_, _)) == /\ Len(ga) = Len(gb) /\ Unique(ga) /\ Unique(gb)
                               /\ Gids(ga) = Gids(gb)
                               /\ Matches(ga, gb, P)
(* B restricted to the identities of A *)
Restrict(gb, ids) == SelectSeq(gb, LAMBDA g : g.gid \in ids)
=============================================================================
