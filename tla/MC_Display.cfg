SPECIFICATION Spec
CONSTANTS
  MaxCb = 2
  MaxSc = 1
  Vals = {1}
  Ordered = TRUE
  Emit = FALSE
INVARIANT Deterministic
INVARIANT CombCount
INVARIANT Conserved
CHECK_DEADLOCK FALSE
