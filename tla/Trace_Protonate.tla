-------------------------- MODULE Trace_Protonate --------------------------
(* Code -> spec: hydrogens the real builder added.  One record per heavy atom:    *)
(*   p : parent position (milli-A), L : tabulated X-H length (milli-A),            *)
(*   h : positions of the hydrogens added to it, heavy : for each hydrogen the     *)
(*   number of heavy atoms it is bonded to, exp : expected count (-1: not judged)  *)
EXTENDS Protonate, Json, IOUtils
Trace == JsonDeserialize(IOEnv.TRACE_FILE)
VARIABLE i
Init == i \in 1..Len(Trace)
Next == UNCHANGED i
Spec == Init /\ [][Next]_i
T == Trace[i]
(* T.L = -1: the parent's element has no tabulated X-H length; the hydrogen then still has to be bonded to it by the
   program's own X-H criterion (closer than 1.5 A) and must not sit on top of it *)
BondLengths == \A k \in 1..Len(T.h) :
                  IF T.L >= 0 THEN BondLengthOK(T.p, T.h[k], T.L)
                  ELSE SqDist(T.p, T.h[k]) < 1500 * 1500 /\ SqDist(T.p, T.h[k]) >= 500 * 500
Separation  == \A j, k \in 1..Len(T.h) : j < k => Apart(T.h[j], T.h[k])
OneParent   == \A k \in 1..Len(T.heavy) : T.heavy[k] = 1
CountOK     == T.exp >= 0 => Len(T.h) = T.exp
=============================================================================
