------------------------------ MODULE Profiles ------------------------------
(***************************************************************************)
(* pH grids, folding-profile window, charge curves, isoelectric point,      *)
(* proton linkage.  (lib.make_grid, MolecularContainer.get_charge_profile,  *)
(* get_folding_profile, get_pi, Group.calculate_charge,                     *)
(* Group.calculate_folding_energy, output.get_folding_profile_section)      *)
(*                                                                          *)
(* pH values are integers in milli-pH; charges and free energies in 1e-4.   *)
(***************************************************************************)
EXTENDS Integers, Sequences, FiniteSets, TLC

Abs(x) == IF x < 0 THEN -x ELSE x
RECURSIVE GCD(_, _)
GCD(a, b) == IF b = 0 THEN Abs(a) ELSE GCD(Abs(b), Abs(a) % Abs(b))

(* ======================= grids (C10) ===================================== *)
(* declarative: the requested grid is min + i*step, i = 0 .. floor((max-min)/step) *)
GridDecl(min, max, step) == [i \in 1..((max - min) \div step + 1) |-> min + (i - 1) * step]
(* mechanism: x = min; while x <= max: yield x; x += step  (exact arithmetic) *)
RECURSIVE GridMech(_, _, _, _)
GridMech(x, max, step, acc) == IF x <= max THEN GridMech(x + step, max, step, Append(acc, x)) ELSE acc
EndPointIncluded(min, max, step) ==
   (max - min) % step = 0 => GridDecl(min, max, step)[Len(GridDecl(min, max, step))] = max

(* folding-table rows: grid points inside the window that lie on the window's own lattice w0 + j*w2 *)
WindowRows(grid, w0, w1, w2) ==
   SelectSeq(grid, LAMBDA p : p >= w0 /\ p <= w1 /\ (p - w0) % w2 = 0)

(* ======================= single-site charge (C09) ========================= *)
(* exact family: pK - pH = k integer, charge = q * 10^(q k) / (1 + 10^(q k)) as <<num, den>> *)
RECURSIVE Pow10(_)
Pow10(e) == IF e = 0 THEN 1 ELSE 10 * Pow10(e - 1)
(* fraction protonated-form weight: 10^j/(1+10^j) for integer j (possibly negative) *)
Frac(j) == IF j >= 0 THEN <<Pow10(j), 1 + Pow10(j)>> ELSE <<1, 1 + Pow10(-j)>>
SiteCharge(q, pk, ph) == LET f == Frac(q * (pk - ph)) IN <<q * f[1], f[2]>>     \* rational <<num, den>>
(* numerator of the total charge over the common denominator (product of the site denominators);
   its sign is the sign of the total charge.  sites: sequence of [q, pk, mk] *)
PKof(s, which) == IF which = "folded" THEN s.pk ELSE s.mk
RECURSIVE DenProd(_, _, _)
DenProd(sites, which, ph) ==
   IF sites = <<>> THEN 1 ELSE SiteCharge(sites[1].q, PKof(sites[1], which), ph)[2] * DenProd(Tail(sites), which, ph)
RECURSIVE NumSum(_, _, _)
NumSum(sites, which, ph) ==
   IF sites = <<>> THEN 0
   ELSE LET c == SiteCharge(sites[1].q, PKof(sites[1], which), ph) IN
        c[1] * DenProd(Tail(sites), which, ph) + c[2] * NumSum(Tail(sites), which, ph)
(* axioms on the exact family *)
Between(q, c) == IF q > 0 THEN c[1] >= 0 /\ c[1] <= c[2] ELSE c[1] <= 0 /\ -c[1] <= c[2]
HalfAtPK(q, pk) == SiteCharge(q, pk, pk) = <<q, 2>>
LessEq(a, b) == a[1] * b[2] <= b[1] * a[2]
NonIncreasing(q, pk, ph) == LessEq(SiteCharge(q, pk, ph + 1), SiteCharge(q, pk, ph))

(* ======================= bisection (C09) ================================== *)
(* get_pi: ph = (lo+hi)/2; while hi - lo > prec: if Q(ph) > 0 then lo = ph else hi = ph; ph = (lo+hi)/2 *)
(* On an integer lattice: positions are integers, prec = Prec; Positive(x) <=> x < thr.             *)
BisectNext(lo, hi, ph, positive) ==
   LET lo2 == IF positive THEN ph ELSE lo
       hi2 == IF positive THEN hi ELSE ph IN
   <<lo2, hi2, (lo2 + hi2) \div 2>>

(* ======================= linkage (C10) ==================================== *)
(* d(dG)/d(pH) = 1.36 (Qf - Qu), Q non-increasing  =>  for consecutive grid nodes p < p':             *)
(*   (dG' - dG) in 1.36 (p' - p) * [ Qf(p') - Qu(p) , Qf(p) - Qu(p') ]                                 *)
(* units: dG, Q in 1e-4 ; p in milli-pH.  1.36 * dp_milli / 1000 = Num/Den (reduced).                  *)
LinkNum(dp) == (136 * dp) \div GCD(136 * dp, 100000)
LinkDen(dp) == 100000 \div GCD(136 * dp, 100000)
LinkageOK(dG0, dG1, qf0, qf1, qu0, qu1, dp, eps) ==
   LET lo == qf1 - qu0   hi == qf0 - qu1   n == LinkNum(dp)   d == LinkDen(dp) IN
   /\ (dG1 - dG0) * d >= lo * n - eps * d
   /\ (dG1 - dG0) * d <= hi * n + eps * d
=============================================================================
