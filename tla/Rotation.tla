------------------------------ MODULE Rotation ------------------------------
(***************************************************************************)
(* propka/vector_algebra.py : rotate_vector_around_an_axis(theta, axis, v) *)
(*                                                                         *)
(* Everything is exact integer arithmetic on a family of inputs where the  *)
(* right-handed (Rodrigues) rotation is rational.  An angle is given by    *)
(*   cos(theta)         = cn / cd                                           *)
(*   sin(theta)/|axis|  = sn / sd        (so (cn/cd)^2 + N (sn/sd)^2 = 1)   *)
(* with N = |axis|^2.  Vectors are <<x, y, z>> of integers.                 *)
(*                                                                         *)
(* Declarative face : Rodrigues (closed form) and the three clauses of the *)
(*                    property statement (length, axial component, turn).  *)
(* Mechanism face   : the five-step align / rotate / un-align algorithm of *)
(*                    the code with its case splits, exact on axes whose   *)
(*                    xy-norm rho and norm m are integers.                 *)
(***************************************************************************)
EXTENDS Integers, Sequences, TLC

Dot(a, b)   == a[1]*b[1] + a[2]*b[2] + a[3]*b[3]
Cross(a, b) == << a[2]*b[3] - a[3]*b[2], a[3]*b[1] - a[1]*b[3], a[1]*b[2] - a[2]*b[1] >>
Scale(k, a) == << k*a[1], k*a[2], k*a[3] >>
Add(a, b)   == << a[1]+b[1], a[2]+b[2], a[3]+b[3] >>
Sq(a)       == Dot(a, a)
Sgn(x)      == IF x > 0 THEN 1 ELSE IF x < 0 THEN -1 ELSE 0
Abs(x)      == IF x < 0 THEN -x ELSE x

RECURSIVE GCD(_, _)
GCD(a, b) == IF b = 0 THEN Abs(a) ELSE GCD(Abs(b), Abs(a) % Abs(b))
GCD4(r, d) == GCD(GCD(r[1], r[2]), GCD(r[3], d))
(* a vector-over-denominator in lowest terms: <<numerator vector, denominator>> *)
Reduce(r, d) == LET g == GCD4(r, d) IN << << r[1] \div g, r[2] \div g, r[3] \div g >>, d \div g >>
ReduceV(r)   == LET g == GCD(GCD(r[1], r[2]), r[3]) IN
                IF g = 0 THEN <<r, 1>> ELSE << << r[1] \div g, r[2] \div g, r[3] \div g >>, g >>

(* an angle record: [cn, cd, sn, sd] ; consistent with axis n iff *)
AngleOK(a, n) == /\ a.cd > 0 /\ a.sd > 0
                 /\ a.cn * a.cn * a.sd * a.sd + Sq(n) * a.sn * a.sn * a.cd * a.cd
                      = a.cd * a.cd * a.sd * a.sd

(* ---- declarative face ---------------------------------------------------- *)
(* R = v cos + (n x v) sin/|n| + n (n.v)(1-cos)/N  as numerator over Den      *)
Den(a, n) == a.cd * a.sd * Sq(n)
Rodrigues(a, n, v) ==
   Add( Add( Scale(a.cn * a.sd * Sq(n), v),
             Scale(a.sn * a.cd * Sq(n), Cross(n, v)) ),
        Scale(Dot(n, v) * (a.cd - a.cn) * a.sd, n) )

(* the three clauses of the statement, for a result r given as numerator over den *)
LengthKept(r, den, v)      == Sq(r) = den * den * Sq(v)
AxialKept(r, den, n, v)    == Dot(n, r) = den * Dot(n, v)
(* perpendicular parts scaled by N: P(v) = N v - n (n.v) *)
Perp(n, v)                 == Add(Scale(Sq(n), v), Scale(-Dot(n, v), n))
TurnsByTheta(r, den, a, n, v) ==
   LET pvr == ReduceV(Perp(n, v))    \* N * v_perp       = g1 * pv
       prr == ReduceV(Perp(n, r))    \* N * den * r_perp = g2 * pr
       pv == pvr[1]  g1 == pvr[2]
       pr == prr[1]  g2 == prr[2]
   IN  \* cos of the turn:  (v_perp . r_perp) = |v_perp|^2 cos      (homogeneous: common factors removed)
       /\ g2 * Dot(pv, pr) * a.cd = den * g1 * Sq(pv) * a.cn
       \* sine: with |r_perp| = |v_perp| (length and axial clauses) the cosine fixes |sin|; what is left
       \* is the handedness: (v_perp x r_perp) . n has the sign of sin(theta)
       /\ Sgn(Dot(Cross(pv, pr), n)) = (IF Sq(pv) = 0 THEN 0 ELSE Sgn(a.sn))
RightHanded(r0, den0, a, n, v) ==
   LET rd == Reduce(r0, den0) r == rd[1] den == rd[2] IN
   LengthKept(r, den, v) /\ AxialKept(r, den, n, v) /\ TurnsByTheta(r, den, a, n, v)

(* ---- mechanism face ------------------------------------------------------- *)
(* integer square root if exact, else -1 *)
ISqrt(k) == IF \E r \in 0..k : r * r = k THEN CHOOSE r \in 0..k : r * r = k ELSE -1
Rho(n) == ISqrt(n[1]*n[1] + n[2]*n[2])
Nrm(n) == ISqrt(Sq(n))
MechFamily(n) == Rho(n) >= 0 /\ Nrm(n) > 0

(* elementary rotations with cos = c/d, sin = s/d applied to a numerator vector *)
RotZ(c, s, u) == << c*u[1] - s*u[2], s*u[1] + c*u[2], (*d*) 0 >>   \* z filled by caller
RotZd(c, s, d, u) == << c*u[1] - s*u[2], s*u[1] + c*u[2], d*u[3] >>
RotYd(c, s, d, u) == << c*u[1] + s*u[3], d*u[2], c*u[3] - s*u[1] >>

ZBranch(n) == IF n[2] # 0 THEN (IF n[1] # 0 THEN "ZGeneral" ELSE "ZHalfPi") ELSE "ZSkip"
(* gamma as (c, s, d) *)
Gamma(n) == CASE ZBranch(n) = "ZGeneral" -> << Abs(n[1]), -Sgn(n[1]) * n[2], Rho(n) >>
              [] ZBranch(n) = "ZHalfPi"  -> << 0, 1, 1 >>
              [] OTHER                   -> << 1, 0, 1 >>
(* axis after the first alignment (exact): *)
Axis1(n) == LET g == Gamma(n) u == RotZd(g[1], g[2], g[3], n) IN
            << u[1] \div g[3], u[2] \div g[3], u[3] \div g[3] >>
YBranch(n, flipNegZ) ==
   LET a1 == Axis1(n) IN
   IF a1[1] # 0 THEN "YGeneral" ELSE IF flipNegZ /\ a1[3] < 0 THEN "YFlip" ELSE "YSkip"
Beta(n, flipNegZ) ==
   LET a1 == Axis1(n) m == Nrm(n) IN
   CASE YBranch(n, flipNegZ) = "YGeneral" -> << a1[3], -Sgn(a1[1]) * Abs(a1[1]), m >>
     [] YBranch(n, flipNegZ) = "YFlip"    -> << -1, 0, 1 >>
     [] OTHER                             -> << 1, 0, 1 >>

(* result numerator and denominator of the five-step algorithm *)
MechDen(a, n, flipNegZ) ==
   LET g == Gamma(n) b == Beta(n, flipNegZ) IN g[3] * b[3] * (a.cd * a.sd) * b[3] * g[3]
Mech(a, n, v, flipNegZ) ==
   LET g  == Gamma(n)
       b  == Beta(n, flipNegZ)
       m  == Nrm(n)
       \* theta: cos = cn/cd ; sin = sn*m/sd ; common denominator cd*sd
       tc == a.cn * a.sd
       ts == a.sn * m * a.cd
       td == a.cd * a.sd
       v1 == RotZd(g[1], g[2], g[3], v)
       v2 == RotYd(b[1], b[2], b[3], v1)
       v3 == RotZd(tc, ts, td, v2)
       v4 == RotYd(b[1], -b[2], b[3], v3)
       v5 == RotZd(g[1], -g[2], g[3], v4)
   IN v5
(* after both alignments the axis must lie on +z: the design intent of the code *)
Aligned(n, flipNegZ) ==
   LET g == Gamma(n) b == Beta(n, flipNegZ)
       a2 == RotYd(b[1], b[2], b[3], RotZd(g[1], g[2], g[3], n))
   IN a2[1] = 0 /\ a2[2] = 0 /\ a2[3] > 0
=============================================================================
