---------------------------- MODULE Gen_RunHistory ----------------------------
EXTENDS RunHistory, Json
EmitInv == Len(hist) = MaxRuns => PrintT(ToJson([shape |-> Shape]))
=============================================================================
