------------------------- MODULE Trace_ParamShipped -------------------------
(* Code -> spec: the tables the real code builds from the working tree's        *)
(* propka.cfg (dumped by the harness through the real look-up functions) are    *)
(* checked against the "shipped file" clauses of the statement.                 *)
(* T.types     : group types the program can create that reach the matrix       *)
(* T.mat[a][b] : interaction_matrix.get_value(a, b)   ("none" when None)        *)
(* T.cut[a][b] : sidechain_cutoffs.get_value(a, b) * 100                        *)
(* T.titr      : [t |-> [wo, q100, pk100]] for every key of model_pkas          *)
(* T.scal      : [name |-> <<plain*1000, squared*1000000 (rounded)>>]           *)
EXTENDS Integers, Sequences, FiniteSets, TLC, Json, IOUtils
T == JsonDeserialize(IOEnv.TRACE_FILE)
Types == {T.types[i] : i \in 1..Len(T.types)}
VARIABLE a, b
Init == a \in Types /\ b \in Types
Next == UNCHANGED <<a, b>>
Spec == Init /\ [][Next]_<<a, b>>
Syms == {"N", "I", "-"}
ShippedComplete == T.mat[a][b] \in Syms
ShippedMatSym   == T.mat[a][b] = T.mat[b][a]
ShippedCutSym   == T.cut[a][b] = T.cut[b][a]
InnerLtOuter    == T.cut[a][b][1] < T.cut[a][b][2]
Titr == DOMAIN T.titr
WriteOutOK == \A t \in Titr : T.titr[t].wo = 1 /\ T.titr[t].q100 # 0
CoulombOrder == T.scal.coulomb_cutoff1[1] < T.scal.coulomb_cutoff2[1]
Squares == \A n \in DOMAIN T.scal : T.scal[n][1] * T.scal[n][1] = T.scal[n][2]
=============================================================================
