----------------------------- MODULE MC_Energy -----------------------------
(* the four laws on grids around their break points; Emit prints every case with its exact value for the replay *)
EXTENDS Energy, TLC, Json
CONSTANTS Emit, DStep
VARIABLES c
Cut == { <<200, 300>>, <<250, 350>>, <<300, 400>>, <<350, 450>>, <<155, 300>> }        \* <<c1, c2>> of the shipped tables
CCut == { <<400, 1000>>, <<400, 800>>, <<300, 1000>> }
HBCases == [k : {"hb"}, d : {x \in 0..520 : x % DStep = 0 \/ \E q \in Cut : x \in {q[1] - 1, q[1], q[1] + 1, q[2] - 1, q[2], q[2] + 1}},
            dmax : {80, 85, 120}, cut : Cut, f : {0, 5, 10}]
CBCases == [k : {"cb"}, d : {x \in 0..1100 : x % (5 * DStep) = 0 \/ \E q \in CCut : x \in {q[1] - 1, q[1], q[1] + 1, q[2] - 1, q[2], q[2] + 1}},
            w : 0..10, cut : CCut]
NV == {0, 1, 100, 279, 280, 281, 400, 401, 559, 560, 561, 700, 900, 1200}
PWCases == [k : {"pw"}, nv1 : NV, nv2 : NV, nmin : {280}, nmax : {560}]
BUCases == [k : {"bu"}, nv1 : NV, nv2 : NV, comb : {900}, sep : {400}]
Init == c \in HBCases \cup CBCases \cup PWCases \cup BUCases
Next == UNCHANGED c
Spec == Init /\ [][Next]_c
HB == c.k = "hb" => /\ HB_Zero(c.d, c.dmax, c.cut[1], c.cut[2], c.f) /\ HB_Full(c.d, c.dmax, c.cut[1], c.cut[2], c.f)
                    /\ HB_Bound(c.d, c.dmax, c.cut[1], c.cut[2], c.f) /\ HB_Mono(c.d, c.dmax, c.cut[1], c.cut[2], c.f)
CB == c.k = "cb" => /\ CB_Zero(c.d, c.w, c.cut[1], c.cut[2]) /\ CB_Bound(c.d, c.w, c.cut[1], c.cut[2])
                    /\ CB_Inner(c.d, c.w, c.cut[1], c.cut[2]) /\ CB_MonoD(c.d, c.w, c.cut[1], c.cut[2])
                    /\ CB_MonoW(c.d, c.w, c.cut[1], c.cut[2])
PW == c.k = "pw" => /\ PW_Range(c.nv1, c.nv2, c.nmin, c.nmax) /\ PW_Sym(c.nv1, c.nv2, c.nmin, c.nmax)
                    /\ PW_Mono(c.nv1, c.nv2, c.nmin, c.nmax)
BU == c.k = "bu" => BU_Sym(c.nv1, c.nv2, c.comb, c.sep) /\ BU_Mono(c.nv1, c.nv2, c.comb, c.sep)
Val == CASE c.k = "hb" -> HBond(c.d, c.dmax, c.cut[1], c.cut[2], c.f)
         [] c.k = "cb" -> Coulomb(c.d, c.w, c.cut[1], c.cut[2])
         [] c.k = "pw" -> PairWeight(c.nv1, c.nv2, c.nmin, c.nmax)
         [] OTHER -> IF Buried(c.nv1, c.nv2, c.comb, c.sep) THEN <<1, 1>> ELSE <<0, 1>>
EmitInv == Emit => PrintT(ToJson([c |-> c, v |-> Val]))
=============================================================================
