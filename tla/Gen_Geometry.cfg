SPECIFICATION Spec
INVARIANT EmitInv
CHECK_DEADLOCK FALSE
