------------------------------ MODULE PkaFile ------------------------------
(***************************************************************************)
(* propka/output.py : write_pka - the layout of the written .pka file.     *)
(*                                                                         *)
(* A file is a sequence of line classes (tokens, pkv/pkafile.py):          *)
(*   ver  pre* | rule dethdr dethdr rule | (blank | g1 gc* | note)* |      *)
(*   rule sumhdr sumcols sum* rule rule | foldhdr (fold* blank | nofold)   *)
(*   (opt|noopt) (r80|nor80) (stab|nostab) blank |                         *)
(*   chhdr (chcols ch* | noch) | (pi | nopi)                               *)
(*                                                                         *)
(* Acceptor face: Apply / Fold - a phase machine with counters (groups in  *)
(*   the determinant table, continuation rows, summary rows, folding rows, *)
(*   charge rows).                                                         *)
(* Writer face: Write(p) - the token sequence write_pka composes from      *)
(*   abstract results p (number of printed groups with their row counts,   *)
(*   whether a coupling note is due, which profile parts exist).           *)
(* Properties (MC_PkaFile): every written file is accepted and its         *)
(*   counters give back p; dropping, doubling or swapping lines of a       *)
(*   written file is noticed (rejected, or the counters change).           *)
(***************************************************************************)
EXTENDS Integers, Sequences, FiniteSets, SequencesExt

Init0 == [ph |-> "start", ing |-> FALSE, k |-> 0,
          ndet |-> 0, ncont |-> 0, nsum |-> 0, nfold |-> 0, nch |-> 0,
          note |-> 0, hasfold |-> 0, hasopt |-> 0, hasr80 |-> 0, hasstab |-> 0, hasch |-> 0, haspi |-> 0]
Bad(st) == [st EXCEPT !.ph = "bad"]
To(st, p) == [st EXCEPT !.ph = p, !.k = 0]

Apply(st, t) ==
  CASE st.ph = "bad" -> st
    [] st.ph = "start" -> IF t = "ver" THEN To(st, "pre") ELSE Bad(st)
    [] st.ph = "pre" ->                       \* banner, references, warnings; the table head starts with a rule + dethdr
         IF t \in {"pre", "blank", "rule"} THEN st
         ELSE IF t = "dethdr" THEN [To(st, "dethead") EXCEPT !.k = 1] ELSE Bad(st)
    [] st.ph = "dethead" ->
         IF t = "dethdr" /\ st.k = 1 THEN [st EXCEPT !.k = 2]
         ELSE IF t = "rule" /\ st.k = 2 THEN To(st, "det") ELSE Bad(st)
    [] st.ph = "det" ->                      \* k = 1: a blank line was seen since the last row (blocks are separated by one)
         IF t = "blank" THEN [st EXCEPT !.ing = FALSE, !.k = 1]
         ELSE IF t = "g1" /\ st.k = 1 THEN [st EXCEPT !.ing = TRUE, !.k = 0, !.ndet = @ + 1]
         ELSE IF t = "gc" /\ st.ing /\ st.k = 0 THEN [st EXCEPT !.ncont = @ + 1]
         ELSE IF t = "note" /\ st.k = 1 /\ st.note < 2 THEN [st EXCEPT !.note = @ + 1]     \* two lines of text
         ELSE IF t = "rule" /\ st.k = 1 /\ st.note \in {0, 2} THEN To(st, "sumhead") ELSE Bad(st)
    [] st.ph = "sumhead" ->
         IF t = "sumhdr" /\ st.k = 0 THEN [st EXCEPT !.k = 1]
         ELSE IF t = "sumcols" /\ st.k = 1 THEN To(st, "sum") ELSE Bad(st)
    [] st.ph = "sum" ->
         IF t = "sum" /\ st.k = 0 THEN [st EXCEPT !.nsum = @ + 1]
         ELSE IF t = "rule" /\ st.k < 2 THEN [st EXCEPT !.k = @ + 1]
         ELSE IF t = "foldhdr" /\ st.k = 2 THEN To(st, "fold") ELSE Bad(st)
    [] st.ph = "fold" ->
         IF t = "fold" THEN [st EXCEPT !.nfold = @ + 1, !.hasfold = 1]
         ELSE IF t = "blank" /\ st.k = 0 THEN [To(st, "foldtail") EXCEPT !.hasfold = 1]
         ELSE IF t = "nofold" /\ st.nfold = 0 THEN To(st, "foldtail") ELSE Bad(st)
    [] st.ph = "foldtail" ->
         IF st.k = 0 /\ t \in {"opt", "noopt"} THEN [st EXCEPT !.k = 1, !.hasopt = IF t = "opt" THEN 1 ELSE 0]
         ELSE IF st.k = 1 /\ t \in {"r80", "nor80"} THEN [st EXCEPT !.k = 2, !.hasr80 = IF t = "r80" THEN 1 ELSE 0]
         ELSE IF st.k = 2 /\ t \in {"stab", "nostab"} THEN [st EXCEPT !.k = 3, !.hasstab = IF t = "stab" THEN 1 ELSE 0]
         ELSE IF st.k = 3 /\ t = "blank" THEN To(st, "charge") ELSE Bad(st)
    [] st.ph = "charge" ->
         IF t = "chhdr" /\ st.k = 0 THEN [st EXCEPT !.k = 1]
         ELSE IF t = "chcols" /\ st.k = 1 THEN [To(st, "chrows") EXCEPT !.hasch = 1]
         ELSE IF t = "noch" /\ st.k = 1 THEN To(st, "chrows") ELSE Bad(st)
    [] st.ph = "chrows" ->
         IF t = "ch" /\ st.hasch = 1 THEN [st EXCEPT !.nch = @ + 1]
         ELSE IF t = "pi" THEN [To(st, "done") EXCEPT !.haspi = 1]
         ELSE IF t = "nopi" THEN To(st, "done") ELSE Bad(st)
    [] OTHER -> Bad(st)                                                    \* nothing follows the pI line

Fold(toks) == FoldLeft(Apply, Init0, toks)
Accepted(toks) == Fold(toks).ph = "done"
Counters == {"ndet", "ncont", "nsum", "nfold", "nch", "note", "hasfold", "hasopt", "hasr80", "hasstab", "hasch", "haspi"}
Counts(toks) == LET s == Fold(toks) IN [c \in Counters |-> s[c]]

(* ---- writer face --------------------------------------------------------- *)
(* p = [rows : sequence of row counts (>= 1) of the printed groups, note : 0/1, nsum, fold : -1 (none) or row count,  *)
(*      opt, r80, stab : 0/1, ch : -1 (none) or row count, pi : 0/1]                                                   *)
Rep(t, n) == [j \in 1..n |-> t]
GroupBlock(r) == <<"blank", "g1">> \o Rep("gc", r - 1)
Write(p) ==
     <<"ver", "blank", "rule", "pre", "pre", "rule", "blank", "rule", "dethdr", "dethdr", "rule">>
  \o FlattenSeq([j \in 1..Len(p.rows) |-> GroupBlock(p.rows[j])])
  \o <<"blank">>
  \o (IF p.note = 1 THEN <<"note", "note">> ELSE <<>>)
  \o <<"rule", "sumhdr", "sumcols">> \o Rep("sum", p.nsum) \o <<"rule", "rule", "foldhdr">>
  \o (IF p.fold < 0 THEN <<"nofold">> ELSE Rep("fold", p.fold) \o <<"blank">>)
  \o << IF p.opt = 1 THEN "opt" ELSE "noopt", IF p.r80 = 1 THEN "r80" ELSE "nor80", IF p.stab = 1 THEN "stab" ELSE "nostab", "blank" >>
  \o <<"chhdr">> \o (IF p.ch < 0 THEN <<"noch">> ELSE <<"chcols">> \o Rep("ch", p.ch))
  \o << IF p.pi = 1 THEN "pi" ELSE "nopi" >>
RECURSIVE SumSeq(_)
SumSeq(s) == IF s = <<>> THEN 0 ELSE Head(s) + SumSeq(Tail(s))
Expected(p) == [ndet |-> Len(p.rows), ncont |-> SumSeq(p.rows) - Len(p.rows), nsum |-> p.nsum,
                nfold |-> IF p.fold < 0 THEN 0 ELSE p.fold, nch |-> IF p.ch < 0 THEN 0 ELSE p.ch, note |-> 2 * p.note,
                hasfold |-> IF p.fold < 0 THEN 0 ELSE 1, hasopt |-> p.opt, hasr80 |-> p.r80, hasstab |-> p.stab,
                hasch |-> IF p.ch < 0 THEN 0 ELSE 1, haspi |-> p.pi]
=============================================================================
