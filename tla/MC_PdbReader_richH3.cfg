SPECIFICATION Spec
CONSTANTS
  KeyKind = "rid"
  MaxLen = 3
  Chains = {"A", "B"}
  Nums = {1, 2}
  Ics = {" "}
  Names = {"N", "X", "OXT", "H"}
  Alts = {" ", "B"}
  Kinds = {"ATOM", "HETATM"}
  RNames = {"AA", "IGN"}
  WithModel = TRUE
  WithOther = TRUE
  Emit = FALSE
  ChainSets <- CS_AB
  KeepH = TRUE
INVARIANT Agree
INVARIANT C13_ChainSelect
INVARIANT C07_Ignorable
CHECK_DEADLOCK FALSE
