--------------------------- MODULE Trace_CellList ---------------------------
(* Code -> spec.  Each record of the trace file is one execution of the real     *)
(* BondMaker.find_bonds_for_atoms_using_boxes on a random dense cloud:           *)
(*   pos, el   : the atoms (centi-Angstrom lattice)                               *)
(*   bonds     : the bond set read back from Atom.bonded_atoms                    *)
(*   bridged   : atoms flagged cysteine_bridge;  asym : asymmetric/self entries   *)
(*   ev        : the recorded traversal: <<"W", ids>> / <<"A", ids1, ids2>>       *)
(* Final state: bonds = AllPairsBonds (declarative face of CellList).             *)
(* Traversal:   every pair of atoms closer than the largest threshold is handed   *)
(*              to the pair check by some event (coverage obligation), and every  *)
(*              event compares atoms of one cell / of two adjacent cells.         *)
EXTENDS Integers, Sequences, FiniteSets, TLC, Json, IOUtils
CONSTANTS B, ThH, ThD, ThSS, ThFF
Trace == JsonDeserialize(IOEnv.TRACE_FILE)
VARIABLE i
Init == i \in 1..Len(Trace)
Next == UNCHANGED i
Spec == Init /\ [][Next]_i
T == Trace[i]
N == Len(T.pos)
pos == [a \in 1..N |-> T.pos[a]]
el  == [a \in 1..N |-> T.el[a]]
\* instantiate the declarative face of CellList on this record
CL == INSTANCE CellList WITH pos <- pos, el <- el, order <- <<>>, phase <- "done", k <- 0, cells <- <<>>,
                            box <- <<>>, ci <- 0, oi <- 0, bonds <- {}, bridged <- {}, examined <- {},
                            Offsets <- <<>>
SetOf(s) == {s[j] : j \in 1..Len(s)}
RealBonds == {SetOf(T.bonds[j]) : j \in 1..Len(T.bonds)}
BondsMatch   == RealBonds = CL!AllPairsBonds
BridgesMatch == SetOf(T.bridged) = CL!AllPairsBridged
Symmetric    == T.asym = 0
(* traversal obligations (skipped when the implementation exposes no events) *)
Ev == T.ev
PairsOf(e) == IF e[1] = "W" THEN {{x, y} : x \in SetOf(e[2]), y \in SetOf(e[2])} \ {{x} : x \in SetOf(e[2])}
              ELSE {{x, y} : x \in SetOf(e[2]), y \in SetOf(e[3])}
Examined == UNION {PairsOf(Ev[j]) : j \in 1..Len(Ev)}
Close(a, b) == CL!SqDist(pos[a], pos[b]) < CL!MaxTh * CL!MaxTh
Coverage == Len(Ev) > 0 => \A a, b \in 1..N : (a < b /\ Close(a, b)) => {a, b} \in Examined
(* an event never compares an atom with itself, and only atoms that can share a cell / adjacent cells *)
Spread(S) == \A x, y \in S : \A c \in 1..3 : pos[x][c] - pos[y][c] < B /\ pos[y][c] - pos[x][c] < B
EventsLocal == \A j \in 1..Len(Ev) :
                  IF Ev[j][1] = "W" THEN Spread(SetOf(Ev[j][2]))
                  ELSE /\ SetOf(Ev[j][2]) \cap SetOf(Ev[j][3]) = {}
                       /\ Spread(SetOf(Ev[j][2])) /\ Spread(SetOf(Ev[j][3]))
                       /\ \A x \in SetOf(Ev[j][2]), y \in SetOf(Ev[j][3]) : \A c \in 1..3 :
                              pos[x][c] - pos[y][c] < 2 * B /\ pos[y][c] - pos[x][c] < 2 * B
=============================================================================
