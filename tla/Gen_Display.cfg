SPECIFICATION Spec
CONSTANTS
  MaxCb = 2
  MaxSc = 0
  Vals = {1}
  Ordered = TRUE
  Emit = TRUE
INVARIANT EmitInv
CHECK_DEADLOCK FALSE
