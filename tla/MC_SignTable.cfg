SPECIFICATION Spec
CONSTANTS
  Emit = FALSE
INVARIANT PairTable
INVARIANT IonTable
CHECK_DEADLOCK FALSE
