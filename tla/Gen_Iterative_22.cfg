SPECIFICATION Spec
CONSTANTS
  G = {1, 2, 3, 4}
  Pairs <- MC_Pairs22
  P = {38, 65}
  V = {0, 3, 10}
  Emit = TRUE
INVARIANT EmitInv
CHECK_DEADLOCK FALSE
