SPECIFICATION Spec
CONSTANTS
  Contents = {"a", "u", "m"}
  Unknown = {"u"}
  Options = {"default", "p"}
  MaxRuns = 4
  HazardValence = FALSE
  HazardNCCG = TRUE
  HazardCache = FALSE
  HazardParams = FALSE
INVARIANT Pure
INVARIANT PureRef
CHECK_DEADLOCK FALSE
