SPECIFICATION Spec
CONSTANTS
  Contents = {"a", "u", "m"}
  Unknown = {"u"}
  Options = {"default", "d"}
  MaxRuns = 4
  HazardValence = FALSE
  HazardNCCG = TRUE
  HazardParams = FALSE
INVARIANT Pure
CHECK_DEADLOCK FALSE
