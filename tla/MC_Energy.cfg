SPECIFICATION Spec
CONSTANTS
  Emit = FALSE
  DStep = 1
INVARIANT HB
INVARIANT CB
INVARIANT PW
INVARIANT BU
CHECK_DEADLOCK FALSE
