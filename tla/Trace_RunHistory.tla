-------------------------- MODULE Trace_RunHistory --------------------------
(* Code -> spec: each record is one history executed in a fresh interpreter:      *)
(*   runs : sequence of [key, dig] - (content, options) key and digest of all        *)
(*          results (every group, determinant, profile, pI, .pka text minus date)    *)
(*   ref  : key -> digest obtained by a run alone in a fresh interpreter             *)
EXTENDS Integers, Sequences, FiniteSets, TLC, Json, IOUtils
Trace == JsonDeserialize(IOEnv.TRACE_FILE)
VARIABLE i
Init == i \in 1..Len(Trace.hist)
Next == UNCHANGED i
Spec == Init /\ [][Next]_i
H == Trace.hist[i]
PureWithin == \A a, b \in 1..Len(H.runs) : H.runs[a].key = H.runs[b].key => H.runs[a].dig = H.runs[b].dig
PureAgainstReference == \A a \in 1..Len(H.runs) : H.runs[a].dig = Trace.ref[H.runs[a].key]
NoFailure == \A a \in 1..Len(H.runs) : H.runs[a].dig # "EXCEPTION"
=============================================================================
