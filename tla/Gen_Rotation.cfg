SPECIFICATION Spec
CONSTANTS
  AxMax = 6
  VMax = 1
  FlipNegZ = TRUE
  Emit = TRUE
INVARIANT AngleConsistent
INVARIANT EmitInv
CHECK_DEADLOCK FALSE
