SPECIFICATION Spec
CONSTANTS
  Emit = TRUE
  DStep = 2
INVARIANT EmitInv
CHECK_DEADLOCK FALSE
