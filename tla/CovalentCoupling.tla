-------------------------- MODULE CovalentCoupling --------------------------
(***************************************************************************)
(* propka/conformation_container.py: find_covalently_coupled_groups,       *)
(* find_bonded_titratable_groups, get_coupled_systems,                     *)
(* get_a_coupled_system_of_groups and coupling_effects (the penalty rule). *)
(*                                                                         *)
(* A molecule is a bond graph over atoms; some atoms carry a titratable    *)
(* group with a SYBYL type, a charge sign and a pKa.                       *)
(*                                                                         *)
(* Mechanism face (code-shaped):                                           *)
(*   Walk(a, k, o)  - the recursive search of find_bonded_titratable_groups*)
(*                    (only the ORIGINAL atom is skipped, other atoms may   *)
(*                    be revisited; depth bounded by MaxBonds)              *)
(*   MechCoupled    - couple_covalently on equal SYBYL type                 *)
(*   MechSystem     - the recursive closure of get_a_coupled_system_...     *)
(*   MechPenalty    - coupling_effects on one system, with the iteration    *)
(*                    order of the system (a Python set) as a parameter:    *)
(*                    max() and min() return the FIRST extremal element     *)
(* Declarative face:                                                       *)
(*   two groups are coupled iff both titrate, their atoms carry the same    *)
(*   SYBYL type and are at most MaxBonds bonds apart; systems are the       *)
(*   connected components; in a system led (highest pKa) by an acid only    *)
(*   the leader is penalised and it is tied to the lowest member; in a      *)
(*   system led by a base every other member is penalised and tied to it.   *)
(***************************************************************************)
EXTENDS Integers, Sequences, FiniteSets, TLC

CONSTANTS MaxBonds      \* parameter coupling_max_number_of_bonds

(* ---- a configuration c = [nbr, host, ty, q, pk] ----------------------------------------- *)
(* nbr : atom -> set of bonded atoms (atoms are 1..n);  host : set of atoms carrying a     *)
(* titratable group;  ty : atom -> SYBYL type;  q : atom -> -1 | 1;  pk : atom -> integer   *)
Nbr(c, a) == c.nbr[a]

(* ---- mechanism --------------------------------------------------------------------------- *)
RECURSIVE Walk(_, _, _, _)
Walk(c, a, k, o) ==
  UNION {   (IF b \in c.host /\ k <= MaxBonds THEN {b} ELSE {})
        \cup (IF k < MaxBonds THEN Walk(c, b, k + 1, o) ELSE {})
        : b \in Nbr(c, a) \ {o} }
MechCoupled(c, g) == {h \in Walk(c, g, 1, g) : c.ty[h] = c.ty[g]}
(* couple_covalently records the coupling on both sides *)
MechPartners(c, g) == MechCoupled(c, g) \cup {h \in c.host : g \in MechCoupled(c, h)}
MechInvolved(c) == {g \in c.host : MechPartners(c, g) # {}}
RECURSIVE Closure(_, _, _)
Closure(c, todo, seen) ==
  IF todo = {} THEN seen
  ELSE LET g == CHOOSE x \in todo : TRUE
           new == MechPartners(c, g) \ (seen \cup {g}) IN
       Closure(c, (todo \ {g}) \cup new, seen \cup {g})
MechSystem(c, g) == Closure(c, {g}, {})
MechSystems(c) == {MechSystem(c, g) : g \in MechInvolved(c)}

(* first extremal element in iteration order `ord` (a sequence enumerating the system) *)
FirstMax(c, ord) == LET k == CHOOSE k \in 1..Len(ord) :
                              /\ \A j \in 1..Len(ord) : c.pk[ord[j]] <= c.pk[ord[k]]
                              /\ \A j \in 1..(k - 1) : c.pk[ord[j]] < c.pk[ord[k]] IN ord[k]
FirstMin(c, ord) == LET k == CHOOSE k \in 1..Len(ord) :
                              /\ \A j \in 1..Len(ord) : c.pk[ord[j]] >= c.pk[ord[k]]
                              /\ \A j \in 1..(k - 1) : c.pk[ord[j]] > c.pk[ord[k]] IN ord[k]
(* result: [pen |-> penalised members, tie |-> member -> the group it is tied to (0: none)] *)
MechPenalty(c, ord) ==
  LET sys == {ord[k] : k \in 1..Len(ord)}
      first == FirstMax(c, ord) IN
  IF c.q[first] < 0
  THEN [pen |-> {first}, tie |-> [g \in sys |-> IF g = first THEN FirstMin(c, ord) ELSE 0]]
  ELSE [pen |-> sys \ {first}, tie |-> [g \in sys |-> IF g = first THEN 0 ELSE first]]

(* ---- declaration ----------------------------------------------------------------------------- *)
RECURSIVE Ball(_, _, _)
(* atoms within k bonds of the set s *)
Ball(c, s, k) == IF k = 0 THEN s ELSE Ball(c, s \cup UNION {Nbr(c, a) : a \in s}, k - 1)
DeclCoupled(c, g, h) == /\ g # h /\ g \in c.host /\ h \in c.host
                        /\ c.ty[g] = c.ty[h] /\ h \in Ball(c, {g}, MaxBonds)
DeclPartners(c, g) == {h \in c.host : DeclCoupled(c, g, h)}
RECURSIVE Comp(_, _)
Comp(c, s) == LET t == s \cup UNION {DeclPartners(c, g) : g \in s} IN IF t = s THEN s ELSE Comp(c, t)
DeclSystems(c) == {Comp(c, {g}) : g \in {x \in c.host : DeclPartners(c, x) # {}}}
IsMax(c, sys, g) == g \in sys /\ \A h \in sys : c.pk[h] <= c.pk[g]
IsMin(c, sys, g) == g \in sys /\ \A h \in sys : c.pk[h] >= c.pk[g]
(* the statement a user relies on, for one system and one outcome r of the penalty rule *)
DeclPenaltyOK(c, sys, r) ==
  \E first \in sys :
    /\ IsMax(c, sys, first)
    /\ IF c.q[first] < 0
       THEN /\ r.pen = {first}
            /\ IsMin(c, sys, r.tie[first])
            /\ \A g \in sys \ {first} : r.tie[g] = 0
       ELSE /\ r.pen = sys \ {first}
            /\ r.tie[first] = 0
            /\ \A g \in sys \ {first} : r.tie[g] = first
(* design-level consequences *)
SomeoneTitrates(sys, r) == sys \ r.pen # {}
TiedToTitrating(sys, r) == \A g \in r.pen : r.tie[g] \in sys \ r.pen
=============================================================================
