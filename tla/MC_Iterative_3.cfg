SPECIFICATION Spec
CONSTANTS
  G = {1, 2, 3}
  Pairs <- MC_Pairs3
  P = {38, 65, 100}
  V = {0, 3, 10}
  Emit = FALSE
INVARIANT FixedPointAfterConvergence
INVARIANT Terminates
CHECK_DEADLOCK FALSE
