---------------------------- MODULE MC_Pipeline ----------------------------
(* Every behaviour of the stage machine over up to three conformations with small scalar domains: the events offered  *)
(* include wrong ones (dirty totals, a disturbing analysis, lost atoms, steps out of order) - Apply rejects them.      *)
EXTENDS Pipeline
CONSTANTS ConfSeqs, NaVals, NgVals
VARIABLES st
C1 == <<1, 65>>
C2 == <<1, 66>>
C3 == <<2, 65>>
MC_ConfSeqs == {<<C1>>, <<C1, C2>>, <<C1, C2, C3>>, <<C2, C1>>}      \* the last one is unsorted: never accepted
AllConfs == {C1, C2, C3}
Events ==
       {[ev |-> "Read", confs |-> cs, na |-> na] : cs \in ConfSeqs, na \in UNION {[1..n -> NaVals] : n \in 1..3}}
  \cup {[ev |-> x, na |-> na] : x \in {"TopUp", "Prepare"}, na \in UNION {[1..n -> NaVals] : n \in 1..3}}
  \cup {[ev |-> "Extract", c |-> c, ng |-> n] : c \in AllConfs, n \in NgVals}
  \cup {[ev |-> "Sort", c |-> c] : c \in AllConfs}
  \cup {[ev |-> "CovFind", c |-> c, ng |-> n] : c \in AllConfs, n \in NgVals}
  \cup {[ev |-> "Penalise", c |-> c] : c \in AllConfs}
  \cup {[ev |-> "Score", c |-> c, ng |-> n, dirty |-> d] : c \in AllConfs, n \in NgVals, d \in {0, 1}}
  \cup {[ev |-> "NonCov", c |-> c, ng |-> n, dirty |-> d, neutral |-> b, display |-> v] :
          c \in AllConfs, n \in NgVals, d \in {0, 1}, b \in BOOLEAN, v \in BOOLEAN}
  \cup {[ev |-> "Average", dirty |-> d] : d \in {0, 1}}
  \cup {[ev |-> "Write"]}
Init == st = Start
Next == \E e \in Events : Apply(st, e) # Reject /\ st' = Apply(st, e)
Spec == Init /\ [][Next]_st
I_AverageAfterAll == AverageAfterAll(st)
I_OneInside == OneInside(st)
I_Barrier == Barrier(st)
I_Groups == GroupsKnownOnceGrouped(st)
I_Sorted == st.ms # "init" => SortedNames(st.confs)
(* group counts are frozen once known; atom counts never shrink *)
Frozen == [][st.ms = "molecule" /\ st'.ms = "molecule" =>
               /\ \A k \in 1..Len(st.ng) : st.ng[k] >= 0 => st'.ng[k] = st.ng[k]
               /\ \A k \in 1..Len(st.na) : st'.na[k] >= st.na[k]]_st
(* the run can always be completed: from every reachable state the written state is reachable (checked as: no deadlock before "written") *)
NoStuck == st.ms # "written" => \E e \in Events : Apply(st, e) # Reject
=============================================================================
