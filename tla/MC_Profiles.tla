---------------------------- MODULE MC_Profiles ----------------------------
(* Three independent small models over Profiles: grids/windows, the exact     *)
(* charge family, and the bisection mechanism.  `kind` selects the model.     *)
EXTENDS Profiles, Json
CONSTANTS Emit, MaxW
VARIABLES kind, a, b, c, d, st
vars == <<kind, a, b, c, d, st>>

(* ---- grids: (min, max, step) in hundredths -------------------------------- *)
Mins  == {0, 50, 200, 370}
Maxs  == {30, 700, 800, 1400}
Steps == {5, 10, 20, 25, 30, 50, 70, 100, 200, 300}
GridInit == kind = "grid" /\ a \in Mins /\ b \in Maxs /\ c \in Steps /\ a <= b /\ d = 0 /\ st = 0
(* ---- windows: window (w0, w1, w2) over the default-like grid a=0..1400 step 10 *)
W0s == {0, 50, 100, 250}
W1s == {700, 1000, 1400}
W2s == {10, 25, 50, 100, 200, 300}
WinInit == kind = "win" /\ a \in W0s /\ b \in W1s /\ c \in W2s /\ d \in {10, 5, 50} /\ st = 0
(* ---- charge family: up to 3 sites, integer pK --------------------------------- *)
PKs == 3..7
PKs3 == 4..6
Site == [q : {-1, 1}, pk : PKs, mk : PKs]
Site3 == [q : {-1, 1}, pk : PKs3, mk : PKs3]
NoSite == [q |-> 0, pk |-> 0, mk |-> 0]
ChInit == kind = "charge" /\ a \in Site /\ b \in Site \cup {NoSite} /\ c \in Site \cup {NoSite} /\ d = 0 /\ st = 0
          /\ (b = NoSite => c = NoSite)
          /\ (c # NoSite => a \in Site3 /\ b \in Site3 /\ c \in Site3)
PHs == IF c = NoSite THEN 3..7 ELSE 4..6
Sites == IF b = NoSite THEN <<a>> ELSE IF c = NoSite THEN <<a, b>> ELSE <<a, b, c>>
(* ---- bisection: window 0..MaxW (MaxW a power of two times Prec), threshold d ---- *)
BisInit == kind = "bisect" /\ a = 0 /\ b = MaxW /\ c = MaxW \div 2 /\ d \in 1..(MaxW - 1) /\ st = 0

Init == GridInit \/ WinInit \/ ChInit \/ BisInit
Prec == 2
BisStep == /\ kind = "bisect" /\ b - a > Prec
           /\ LET n == BisectNext(a, b, c, c < d) IN a' = n[1] /\ b' = n[2] /\ c' = n[3]
           /\ st' = st + 1 /\ UNCHANGED <<kind, d>>
Next == BisStep
Spec == Init /\ [][Next]_vars

(* ---- properties ------------------------------------------------------------------- *)
GridAgree == kind = "grid" => /\ GridMech(a, b, c, <<>>) = GridDecl(a, b, c)
                              /\ EndPointIncluded(a, b, c)
                              /\ GridDecl(a, b, c)[1] = a
WinSubset == kind = "win" => LET g == GridDecl(0, 1400, d) r == WindowRows(g, a, b, c) IN
                             /\ \A i \in 1..Len(r) : r[i] >= a /\ r[i] <= b
                             /\ (a % d = 0 => Len(r) >= 1 /\ r[1] = a)
                             /\ ((b - a) % c = 0 /\ a % d = 0 /\ c % d = 0) => r[Len(r)] = b
ChargeAxioms == kind = "charge" =>
    \A i \in 1..Len(Sites) : \A ph \in PHs :
        /\ Between(Sites[i].q, SiteCharge(Sites[i].q, Sites[i].pk, ph))
        /\ HalfAtPK(Sites[i].q, Sites[i].pk)
        /\ NonIncreasing(Sites[i].q, Sites[i].pk, ph)
(* totals: sum of non-increasing site curves; the sign of the total can only go from + to - *)
TotalsSignMonotone == kind = "charge" =>
    \A w \in {"folded", "unfolded"} : \A ph \in PHs : \A p2 \in PHs :
        (p2 > ph /\ NumSum(Sites, w, ph) <= 0) => NumSum(Sites, w, p2) <= 0
(* bisection: the bracket always contains the sign change, and at termination the answer is within Prec *)
BracketInv == kind = "bisect" => a < d /\ d <= b /\ a <= c /\ c <= b
BisectResult == (kind = "bisect" /\ b - a <= Prec) => Abs(c - d) <= Prec
BisectTerminates == kind = "bisect" => st <= 12

NoSteps == st = 0 /\ kind # "bisect"
Bracket(which) == {ph \in PHs : ph + 1 \in PHs /\ NumSum(Sites, which, ph) > 0 /\ NumSum(Sites, which, ph + 1) <= 0}
EmitInv ==
  Emit =>
   CASE kind = "grid" -> PrintT(ToJson([k |-> "grid", min |-> a, max |-> b, step |-> c, pts |-> GridDecl(a, b, c)]))
     [] kind = "win"  -> PrintT(ToJson([k |-> "win", w0 |-> a, w1 |-> b, w2 |-> c, gstep |-> d,
                                        rows |-> WindowRows(GridDecl(0, 1400, d), a, b, c)]))
     [] kind = "charge" -> PrintT(ToJson([k |-> "charge", sites |-> Sites,
                                          phs |-> PHs,
                                          fold |-> [ph \in PHs |-> [i \in 1..Len(Sites) |-> SiteCharge(Sites[i].q, Sites[i].pk, ph)]],
                                          unf  |-> [ph \in PHs |-> [i \in 1..Len(Sites) |-> SiteCharge(Sites[i].q, Sites[i].mk, ph)]],
                                          bf |-> Bracket("folded"), bu |-> Bracket("unfolded")]))
     [] OTHER -> TRUE
=============================================================================
