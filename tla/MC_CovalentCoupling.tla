------------------------ MODULE MC_CovalentCoupling ------------------------
(* All bond graphs over N atoms with at most MaxEdges bonds, every placement of up to MaxHosts titratable groups,  *)
(* two SYBYL types, both charge signs, pKa values from PkVals (ties included), every iteration order of a system.   *)
EXTENDS CovalentCoupling, Json
CONSTANTS N, MaxEdges, MaxHosts, Types, PkVals, Emit
VARIABLES c, step
Atoms == 1..N
Pairs == {{a, b} : a, b \in Atoms} \ {{a} : a \in Atoms}
NoCfg == [nbr |-> [a \in Atoms |-> {}], host |-> {}, ty |-> [a \in Atoms |-> "-"], q |-> [a \in Atoms |-> 1], pk |-> [a \in Atoms |-> 0]]
Init == /\ step = 0
        /\ \E bond \in {x \in SUBSET Pairs : Cardinality(x) <= MaxEdges} :
             c = [NoCfg EXCEPT !.nbr = [a \in Atoms |-> {b \in Atoms : {a, b} \in bond}]]
Pick == /\ step = 0 /\ step' = 1
        /\ \E host \in {h \in SUBSET Atoms : Cardinality(h) >= 2 /\ Cardinality(h) <= MaxHosts} :
           \E ty \in [host -> Types], q \in [host -> {-1, 1}], pk \in [host -> PkVals] :
             c' = [c EXCEPT !.host = host,
                            !.ty = [a \in Atoms |-> IF a \in host THEN ty[a] ELSE "-"],
                            !.q = [a \in Atoms |-> IF a \in host THEN q[a] ELSE 1],
                            !.pk = [a \in Atoms |-> IF a \in host THEN pk[a] ELSE 0]]
Spec == Init /\ [][Pick]_<<c, step>>

Orders(sys) == {o \in [1..Cardinality(sys) -> sys] : \A i, j \in DOMAIN o : i # j => o[i] # o[j]}
Picked(P) == step = 1 => P
AgreeCoupled == Picked(\A g \in c.host : MechPartners(c, g) = DeclPartners(c, g))
Symmetric    == Picked(\A g, h \in c.host : (h \in MechCoupled(c, g)) <=> (g \in MechCoupled(c, h)))
AgreeSystems == Picked(MechSystems(c) = DeclSystems(c))
Partition    == Picked(\A s, t \in MechSystems(c) : s = t \/ s \cap t = {})
PenaltyOK    == Picked(\A sys \in DeclSystems(c) : \A o \in Orders(sys) : DeclPenaltyOK(c, sys, MechPenalty(c, o)))
Titrates     == Picked(\A sys \in DeclSystems(c) : \A o \in Orders(sys) : SomeoneTitrates(sys, MechPenalty(c, o)))
(* NOT an invariant of the design: with an exact pKa tie in a system led by an acid, max() and min() return the same
   first element and the penalised leader is tied to itself (kept as a self-test that TLC refutes) *)
TiedOK       == Picked(\A sys \in DeclSystems(c) : \A o \in Orders(sys) : TiedToTitrating(sys, MechPenalty(c, o)))
TiedOKNoTies == Picked((\A g, h \in c.host : g # h => c.pk[g] # c.pk[h]) =>
                       \A sys \in DeclSystems(c) : \A o \in Orders(sys) : TiedToTitrating(sys, MechPenalty(c, o)))
EmitInv == (Emit /\ step = 1 /\ DeclSystems(c) # {}) =>
             PrintT(ToJson([nbr |-> [a \in Atoms |-> c.nbr[a]], host |-> c.host, ty |-> c.ty, q |-> c.q, pk |-> c.pk]))
=============================================================================
