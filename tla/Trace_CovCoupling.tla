------------------------- MODULE Trace_CovCoupling -------------------------
(* Code -> spec for covalent coupling.  One record per observed molecule (a generated stub molecule driven through    *)
(* the real find_covalently_coupled_groups / coupling_effects, or one conformation of a real run):                    *)
(*   nbr[a]      bonded atoms of atom a (atoms are 1..n; only the bond neighbourhood of the hosts is recorded)          *)
(*   host        atoms that carry a titratable group;  ty[a], q[a], pk[a] (micro-pKa at the moment of the penalty rule) *)
(*   partners[a] the covalently_coupled_groups the code recorded for the group on atom a                               *)
(*   systems     the systems coupling_effects iterated over;  pen[k], tie[k] = <<g, tied-to or 0>> its outcome on k      *)
EXTENDS CovalentCoupling, Json, IOUtils
Trace == JsonDeserialize(IOEnv.TRACE_FILE)
VARIABLE i
Init == i \in 1..Len(Trace)
Next == UNCHANGED i
Spec == Init /\ [][Next]_i
R == Trace[i]
SetOf(s) == {s[k] : k \in 1..Len(s)}
Cfg == [nbr |-> [a \in 1..Len(R.nbr) |-> SetOf(R.nbr[a])], host |-> SetOf(R.host), ty |-> R.ty, q |-> R.q, pk |-> R.pk]
T_Partners == \A g \in Cfg.host : SetOf(R.partners[g]) = DeclPartners(Cfg, g)
T_MechPartners == \A g \in Cfg.host : SetOf(R.partners[g]) = MechPartners(Cfg, g)
T_Systems == {SetOf(R.systems[k]) : k \in 1..Len(R.systems)} = DeclSystems(Cfg)
Outcome(k) == [pen |-> SetOf(R.pen[k]),
               tie |-> [g \in SetOf(R.systems[k]) |-> LET p == CHOOSE p \in SetOf(R.tie[k]) : p[1] = g IN p[2]]]
T_Penalty == \A k \in 1..Len(R.systems) : DeclPenaltyOK(Cfg, SetOf(R.systems[k]), Outcome(k))
T_SomeoneTitrates == \A k \in 1..Len(R.systems) : SomeoneTitrates(SetOf(R.systems[k]), Outcome(k))
=============================================================================
