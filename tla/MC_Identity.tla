---------------------------- MODULE MC_Identity ----------------------------
(* Enumerates relabelling descriptors over a base labelling of two chains and   *)
(* checks which keys stay faithful; emits every descriptor for replay on real   *)
(* structures.                                                                  *)
EXTENDS Identity, Json
CONSTANTS NA, NB, Emit         \* residues in chain A / chain B of the base labelling
VARIABLES desc, lab
vars == <<desc, lab>>
Base == [k \in 1..(NA + NB) |-> IF k <= NA THEN <<"A", 10 + k, " ">> ELSE <<"B", 10 + (k - NA), " ">>]
ChainMaps == { [A |-> "A", B |-> "B"], [A |-> "B", B |-> "A"], [A |-> " ", B |-> "B"], [A |-> "X", B |-> "Y"],
               [A |-> "A", B |-> "a"] }       \* identifiers are case-sensitive single characters
Shifts == {0, 100, -40, -11, 3, 1000, -1000}      \* 3: chain B starts at the number chain A ends with (Base: A 11..14, B 11..13)
Modes == {"none", "sequential", "twinsA", "twinsB", "twinsStartA", "codeA", "codeB"}
Descs == [cm : ChainMaps, sa : Shifts, sb : Shifts, mode : Modes]
Apply(d) ==
  LET l0 == CASE d.mode = "twinsA" -> MakeTwins(Base, 2)
              [] d.mode = "twinsB" -> MakeTwins(Base, NA + 2)
              [] d.mode = "twinsStartA" -> MakeTwins(Base, 1)
              [] d.mode = "codeA" -> AddCode(Base, 2)
              [] d.mode = "codeB" -> AddCode(Base, NA + 2)
              [] OTHER -> Base
      l1 == Shift(Shift(l0, "A", d.sa), "B", d.sb)
      l2 == IF d.mode = "sequential" THEN Sequential(l1, 1) ELSE l1
  IN RenameChains(l2, d.cm)
Init == desc \in Descs /\ lab = Apply(desc)
Next == UNCHANGED vars
Spec == Init /\ [][Next]_vars
StaysValid   == Valid(lab)
FullFaithful == KeyFaithful("full", lab)
(* the weaker keys fail exactly when the labelling has twins *)
WeakKeysFailOnTwinsOnly == KeyFaithful("numchain", lab) <=> ~HasTwins(lab)
EmitInv == Emit => PrintT(ToJson([d |-> desc, lab |-> lab, twins |-> HasTwins(lab)]))
=============================================================================
