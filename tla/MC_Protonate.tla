---------------------------- MODULE MC_Protonate ----------------------------
EXTENDS Protonate, Json
CONSTANTS Emit
VARIABLE e
Envs == [val : {4, 5, 6}, nb : 0..4, pi : 0..2, conj : 0..1, q : {-1, 0, 1}]
Init == e \in Envs
Next == UNCHANGED e
Spec == Init /\ [][Next]_e
CountAgrees == MechAdded(e) = DeclAdded(e)
NeverNegative == MechAdded(e) >= 0 /\ MechAdded(e) <= 3
(* complements the statement lists, as environments: His ND1/NE2, Arg NE/NH1/NH2, amide N, Trp NE1, backbone N *)
HisNE2 == [val |-> 5, nb |-> 2, pi |-> 0, conj |-> 1, q |-> 0]
HisND1 == [val |-> 5, nb |-> 2, pi |-> 1, conj |-> 0, q |-> 1]
ArgNE  == [val |-> 5, nb |-> 2, pi |-> 0, conj |-> 1, q |-> 0]
ArgNH1 == [val |-> 5, nb |-> 1, pi |-> 1, conj |-> 0, q |-> 1]
ArgNH2 == [val |-> 5, nb |-> 1, pi |-> 0, conj |-> 1, q |-> 0]
AmideN == [val |-> 5, nb |-> 1, pi |-> 0, conj |-> 1, q |-> 0]
TrpNE1 == [val |-> 5, nb |-> 2, pi |-> 0, conj |-> 1, q |-> 0]
BackboneN == [val |-> 5, nb |-> 2, pi |-> 0, conj |-> 1, q |-> 0]
Complements == /\ DeclAdded(HisNE2) = 1 /\ DeclAdded(HisND1) = 1
               /\ DeclAdded(ArgNE) = 1 /\ DeclAdded(ArgNH1) = 2 /\ DeclAdded(ArgNH2) = 2
               /\ DeclAdded(AmideN) = 2 /\ DeclAdded(TrpNE1) = 1 /\ DeclAdded(BackboneN) = 1
EmitInv == Emit => PrintT(ToJson([e |-> e, toadd |-> ToAdd(e), steric |-> Steric(e), added |-> DeclAdded(e),
                                  branches |-> Branches(e)]))
=============================================================================
