SPECIFICATION Spec
CONSTANTS
  MaxCb = 1
  MaxSc = 0
  Vals = {1}
  Ordered = TRUE
  Emit = FALSE
INVARIANT Deterministic
INVARIANT CombCount
INVARIANT Conserved
CHECK_DEADLOCK FALSE
