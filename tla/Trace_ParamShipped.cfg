SPECIFICATION Spec
INVARIANT ShippedComplete
INVARIANT ShippedMatSym
INVARIANT ShippedCutSym
INVARIANT InnerLtOuter
INVARIANT WriteOutOK
INVARIANT CoulombOrder
INVARIANT Squares
CHECK_DEADLOCK FALSE
