SPECIFICATION Spec
CONSTANTS
  AxMax = 6
  VMax = 2
  FlipNegZ = TRUE
  Emit = FALSE
INVARIANT AngleConsistent
INVARIANT DeclRightHanded
INVARIANT MechAgrees
INVARIANT MechAligned
CHECK_DEADLOCK FALSE
