--------------------------- MODULE Trace_Profiles ---------------------------
(* Code -> spec: one record per real run (API values and the parsed .pka text),  *)
(* every number an integer.  Units: milli-pH for requested grid/window, micro-pH *)
(* for pH values the code produced, 1e-4 for charges and free energies, 1/100    *)
(* (1/10) for printed numbers.   The operators of Profiles are the oracle.       *)
EXTENDS Profiles, Json, IOUtils
Trace == JsonDeserialize(IOEnv.TRACE_FILE)
VARIABLE i
Init == i \in 1..Len(Trace)
Next == UNCHANGED i
Spec == Init /\ [][Next]_i
T == Trace[i]
NoneV == -999999999
G == GridDecl(T.g[1], T.g[2], T.g[3])            \* requested grid, milli-pH
NG == Len(T.grp)
Near(x, y, e) == Abs(x - y) <= e
RECURSIVE SumTo(_, _)
SumTo(f, n) == IF n = 0 THEN 0 ELSE f[n] + SumTo(f, n - 1)

(* ---- C10: the computed pH values are exactly the requested grid ------------- *)
GridExact  == /\ Len(T.ph) = Len(G)
              /\ \A k \in 1..Len(G) : Near(T.ph[k], 1000 * G[k], 1)
ChargeGrid == /\ Len(T.chph) = Len(G)
              /\ \A k \in 1..Len(G) : Near(T.chph[k], 1000 * G[k], 1)
K == IF Len(T.ph) < Len(G) THEN Len(T.ph) ELSE Len(G)     \* nodes available for the other clauses

(* ---- C09: single-site axioms and sums ------------------------------------------ *)
Axioms == \A g \in 1..NG : LET r == T.grp[g] IN
            /\ \A k \in 1..Len(r.qf) :
                  /\ (r.q > 0 => r.qf[k] >= 0 /\ r.qf[k] <= r.q /\ r.qu[k] >= 0 /\ r.qu[k] <= r.q)
                  /\ (r.q < 0 => r.qf[k] <= 0 /\ r.qf[k] >= r.q /\ r.qu[k] <= 0 /\ r.qu[k] >= r.q)
            /\ \A k \in 1..(Len(r.qf) - 1) : r.qf[k + 1] <= r.qf[k] /\ r.qu[k + 1] <= r.qu[k]
            /\ Near(2 * r.hf, r.q, 2) /\ Near(2 * r.hu, r.q, 2)     \* half the formal charge at pH = pK
SumOfGroups == \A k \in 1..Len(T.ch) :
                 /\ Near(T.ch[k][1], SumTo([g \in 1..NG |-> T.grp[g].qu[k]], NG), NG + 2)
                 /\ Near(T.ch[k][2], SumTo([g \in 1..NG |-> T.grp[g].qf[k]], NG), NG + 2)
FoldSum == \A k \in 1..Len(T.dg) :
                 Near(T.dg[k], SumTo([g \in 1..NG |-> T.grp[g].dg[k]], NG), NG + 2)

(* ---- C09: isoelectric points -------------------------------------------------------- *)
(* piq = <<Qf(pIf-prec), Qf(pIf+prec), Qu(pIu-prec), Qu(pIu+prec), Qf(w0), Qf(w1), Qu(w0), Qu(w1)>> *)
(* pis = the exact signs of the same eight charges (0 below 1e-9): the clause is about signs, and a flat curve
   may stay below the 1e-4 quantisation of piq over a wide pH range *)
BracketF == (T.pis[5] > 0 /\ T.pis[6] < 0) => (T.pis[1] >= 0 /\ T.pis[2] <= 0)
BracketU == (T.pis[7] > 0 /\ T.pis[8] < 0) => (T.pis[3] >= 0 /\ T.pis[4] <= 0)
(* the recorded bisection follows BisectNext (mechanism conformance; diagnostic) *)
RECURSIVE Follows(_, _, _, _, _)
Follows(ev, k, lo, hi, ph) ==
   IF k > Len(ev) THEN TRUE
   ELSE /\ Near(ev[k][1], ph, 2)
        /\ LET nx == BisectNext(lo, hi, ev[k][1], ev[k][2] = 1) IN Follows(ev, k + 1, nx[1], nx[2], nx[3])
BisectConforms == /\ Follows(T.bisf, 1, T.piw[1], T.piw[2], (T.piw[1] + T.piw[2]) \div 2)
                  /\ Follows(T.bisu, 1, T.piw[1], T.piw[2], (T.piw[1] + T.piw[2]) \div 2)

(* ---- C10: proton linkage, per group and for the totals --------------------------------- *)
DP(k) == (T.ph[k + 1] - T.ph[k] + 500) \div 1000          \* node spacing in milli-pH
LinkGroups == \A g \in 1..NG : LET r == T.grp[g] IN
                \A k \in 1..(Len(r.dg) - 1) :
                   LinkageOK(r.dg[k], r.dg[k + 1], r.qf[k], r.qf[k + 1], r.qu[k], r.qu[k + 1], DP(k), 4)
LinkTotal == \A k \in 1..(K - 1) :
                (k + 1 <= Len(T.ch) /\ k + 1 <= Len(T.dg)) =>
                   LinkageOK(T.dg[k], T.dg[k + 1], T.ch[k][2], T.ch[k + 1][2], T.ch[k][1], T.ch[k + 1][1], DP(k), NG + 6)

(* ---- C10: optimum and ranges ---------------------------------------------------------------- *)
Optimum == IF Len(T.dg) = 0 THEN T.opt[1] = NoneV
           ELSE \E k \in 1..Len(T.dg) :
                   /\ T.opt = <<T.ph[k], T.dg[k]>>
                   /\ \A j \in 1..Len(T.dg) : T.dg[j] >= T.dg[k]
                   \* "first" minimum: an earlier node may tie only within the 1e-4 quantisation
                   /\ \A j \in 1..(k - 1) : T.dg[j] >= T.dg[k]
(* values qualifying for a range, with a tolerance band of one unit for the rounding to 1e-4 *)
RangeOK(rng, must, may) ==
   IF rng[1] = NoneV THEN must = {}
   ELSE /\ \E j \in may : T.ph[j] = rng[1]
        /\ \E j \in may : T.ph[j] = rng[2]
        /\ \A j \in must : T.ph[j] >= rng[1] /\ T.ph[j] <= rng[2]
        /\ rng[1] <= rng[2]
Range80 == LET o == T.opt[2] IN
           RangeOK(T.r80, {j \in 1..Len(T.dg) : 10 * T.dg[j] < 8 * o - 20}, {j \in 1..Len(T.dg) : 10 * T.dg[j] <= 8 * o + 20})
StabRange == RangeOK(T.stab, {j \in 1..Len(T.dg) : T.dg[j] < -1}, {j \in 1..Len(T.dg) : T.dg[j] <= 1})

(* ---- rendering: the two tables of the .pka file ----------------------------------------------- *)
F == T.file
WR == WindowRows(G, T.w[1], T.w[2], T.w[3])          \* milli-pH values that must be printed
IndexOf(p) == CHOOSE k \in 1..Len(G) : G[k] = p
FoldRows == /\ Len(F.fold) = Len(WR)
            /\ \A r \in 1..Len(WR) : r <= Len(F.fold) =>
                  /\ Near(10 * F.fold[r][1], WR[r], 5)
                  /\ IndexOf(WR[r]) <= Len(T.dg) => Near(100 * F.fold[r][2], T.dg[IndexOf(WR[r])], 51)
ChargeRows == /\ Len(F.charge) = Len(G)
              /\ \A k \in 1..Len(G) : (k <= Len(F.charge) /\ k <= Len(T.ch)) =>
                    /\ Near(10 * F.charge[k][1], G[k], 5)
                    /\ Near(100 * F.charge[k][2], T.ch[k][1], 51)      \* column 2: unfolded
                    /\ Near(100 * F.charge[k][3], T.ch[k][2], 51)      \* column 3: folded
PiLine == F.pi[1] # NoneV => /\ Near(F.pi[1] * 10000, T.pi[1], 5001)   \* folded first
                             /\ Near(F.pi[2] * 10000, T.pi[2], 5001)
(* the section written for a single conformation reports that conformation's own pI (T.confpi: <<file folded, file
   unfolded (hundredths), API folded, API unfolded (micro)>> per conformation of a multi-conformation input) *)
ConfPiLine == \A k \in 1..Len(T.confpi) : /\ Near(T.confpi[k][1] * 10000, T.confpi[k][3], 5001)
                                             /\ Near(T.confpi[k][2] * 10000, T.confpi[k][4], 5001)
(* ... and that conformation's own charge curve (T.confch: per conformation, per grid node <<file unfolded, file folded
   (hundredths), API unfolded, API folded (1e-4)>>; a table of another length is recorded as one impossible row) *)
ConfChargeRows == \A c \in 1..Len(T.confch) : \A k \in 1..Len(T.confch[c]) :
                     /\ Near(100 * T.confch[c][k][1], T.confch[c][k][3], 51)
                     /\ Near(100 * T.confch[c][k][2], T.confch[c][k][4], 51)
OptLine == (F.opt[1] # NoneV /\ T.opt[1] # NoneV) =>
               /\ Near(F.opt[1] * 100000, T.opt[1], 50001)
               /\ Near(F.opt[2] * 1000, T.opt[2], 501)
=============================================================================
