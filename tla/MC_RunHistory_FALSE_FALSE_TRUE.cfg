SPECIFICATION Spec
CONSTANTS
  Contents = {"a", "u", "m"}
  Unknown = {"u"}
  Options = {"default", "d"}
  MaxRuns = 4
  HazardValence = FALSE
  HazardNCCG = FALSE
  HazardParams = TRUE
INVARIANT Pure
CHECK_DEADLOCK FALSE
