SPECIFICATION Spec
CONSTANTS
  NA = 4
  NB = 3
  Emit = FALSE
INVARIANT StaysValid
INVARIANT FullFaithful
INVARIANT WeakKeysFailOnTwinsOnly
CHECK_DEADLOCK FALSE
