SPECIFICATION Spec
CONSTANTS
  Emit = FALSE
  MaxW = 1024
INVARIANT GridAgree
INVARIANT WinSubset
INVARIANT ChargeAxioms
INVARIANT TotalsSignMonotone
INVARIANT BracketInv
INVARIANT BisectResult
INVARIANT BisectTerminates
CHECK_DEADLOCK FALSE
