SPECIFICATION Spec
CONSTANTS
  MaxDet = 2
  EqualLabels = TRUE
  EmitMod = 1
  EmitRes = 0
  Emit = FALSE
INVARIANT SwapInvolution
INVARIANT ProbeNeutral
INVARIANT ThirdUntouched
CHECK_DEADLOCK FALSE
