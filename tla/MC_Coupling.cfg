SPECIFICATION Spec
CONSTANTS
  MaxDet = 2
  EqualLabels = TRUE
  Emit = FALSE
INVARIANT SwapInvolution
INVARIANT ProbeNeutral
INVARIANT ThirdUntouched
CHECK_DEADLOCK FALSE
