SPECIFICATION Spec
CONSTANTS
  MaxDet = 2
  Emit = FALSE
INVARIANT SwapInvolution
INVARIANT ProbeNeutral
INVARIANT ThirdUntouched
CHECK_DEADLOCK FALSE
