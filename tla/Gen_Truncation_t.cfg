SPECIFICATION Spec
CONSTANTS
  MaxAll = 12
  Emit = TRUE
INVARIANT EmitInv
CHECK_DEADLOCK FALSE
