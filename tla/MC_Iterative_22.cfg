SPECIFICATION Spec
CONSTANTS
  G = {1, 2, 3, 4}
  Pairs <- MC_Pairs22
  P = {38, 45, 65}
  V = {0, 3, 10}
  Emit = FALSE
INVARIANT FixedPointAfterConvergence
INVARIANT ClusterIndependence
INVARIANT Terminates
CHECK_DEADLOCK FALSE
