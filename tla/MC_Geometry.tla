---------------------------- MODULE MC_Geometry ----------------------------
(* Three atoms in a window around cell boundaries, every one of the 24 rotations  *)
(* and a translation from each residue class: squared distances, the all-pairs    *)
(* bond set and the cell-list mechanism's result are invariant.                   *)
EXTENDS Geometry, Json
CONSTANTS Coords, Trans, Emit
VARIABLES pos, el, rot, tr
vars == <<pos, el, rot, tr>>
MC_Coords == {-252, 0, 149}
MC_CoordsT == {-252, -1, 0, 149, 251}
MC_Trans == {0, 125, -251, 100000}
None == << <<1,2,3>>, <<1,1,1>> >>
ElSets == { <<"C","C","H">>, <<"S","S","C">> }
Init == /\ pos \in [1..3 -> Coords \X {0, 149} \X {-1, 250}]
        /\ pos[1] # pos[2] /\ pos[2] # pos[3] /\ pos[1] # pos[3]
        /\ el \in ElSets
        /\ rot = None
        /\ tr = <<-1, -1, -1>>
(* the motion is chosen in a second step so that TLC's workers share the enumeration *)
Pick == /\ tr = <<-1, -1, -1>>
        /\ rot' \in Rot24
        /\ tr' \in Trans \X {0, 125} \X {-251, 1}
        /\ UNCHANGED <<pos, el>>
Next == Pick
Spec == Init /\ [][Next]_vars
moved == [a \in 1..3 |-> Move(rot, tr, pos[a])]
elf == [a \in 1..3 |-> el[a]]
CLa == INSTANCE CellList WITH B <- 251, ThH <- 150, ThD <- 200, ThSS <- 250, ThFF <- 170, Offsets <- <<>>,
          pos <- pos, el <- elf, order <- <<>>, phase <- "done", k <- 0, cells <- <<>>, box <- <<>>, ci <- 0, oi <- 0,
          bonds <- {}, bridged <- {}, examined <- {}
CLb == INSTANCE CellList WITH B <- 251, ThH <- 150, ThD <- 200, ThSS <- 250, ThFF <- 170, Offsets <- <<>>,
          pos <- moved, el <- elf, order <- <<>>, phase <- "done", k <- 0, cells <- <<>>, box <- <<>>, ci <- 0, oi <- 0,
          bonds <- {}, bridged <- {}, examined <- {}
SqDistInvariant == \A a, b \in 1..3 : SqDist(pos[a], pos[b]) = SqDist(moved[a], moved[b])
BondsInvariant  == CLa!AllPairsBonds = CLb!AllPairsBonds /\ CLa!AllPairsBridged = CLb!AllPairsBridged
Rot24Count == Cardinality(Rot24) = 24
(* rotations compose to rotations and preserve orientation: R(a x b) = R a x R b *)
Cross(a, b) == << a[2]*b[3] - a[3]*b[2], a[3]*b[1] - a[1]*b[3], a[1]*b[2] - a[2]*b[1] >>
Orientation == ApplyRot(rot, Cross(pos[1], pos[2])) = Cross(ApplyRot(rot, pos[1]), ApplyRot(rot, pos[2]))
=============================================================================
