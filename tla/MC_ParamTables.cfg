SPECIFICATION Spec
CONSTANTS
  Keys = {"A", "B", "C"}
  Syms = {"N", "I"}
  PVals <- MC_PVals
  CutVals = {2, 3}
  MaxKeys = 3
  MaxLines = 5
  Emit = FALSE
VIEW View
INVARIANT MatSym
INVARIANT PairSym
INVARIANT Fallback
INVARIANT SquareLinked
INVARIANT Refines
INVARIANT RowsComplete
CHECK_DEADLOCK FALSE
