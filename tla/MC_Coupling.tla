---------------------------- MODULE MC_Coupling ----------------------------
(* Three groups; groups 1 and 2 are probed, group 3 may share its printed label *)
(* with either (labels are not unique: twins, ligand atoms).  Up to MaxDet       *)
(* determinants per list, also several towards the same partner.                 *)
EXTENDS Coupling, Json
CONSTANTS MaxDet, Emit, EqualLabels, EmitMod, EmitRes     \* the generator prints the configurations with Idx % EmitMod = EmitRes
VARIABLES lab, det, orig, step
vars == <<lab, det, orig, step>>
G == 1..3
Labels == {"L1", "L2"}
Vals == {1, 2}
Dets == [lab : Labels, v : Vals, to : G]
SeqsUpTo(S, n) == UNION {[1..k -> S] : k \in 0..n}
(* determinants group g can hold: towards another group, carrying that group's label *)
DetsFor(l, g) == {d \in Dets : d.to # g /\ d.lab = l[d.to]}
Empty == [cb |-> <<>>, sc |-> <<>>]
(* protein groups with equal labels compare equal and are never probed; hetero groups with equal labels (two copies of
   a ligand in one chain) differ in residue number and ARE probed: EqualLabels admits that case *)
Init == /\ lab \in [G -> Labels] /\ (EqualLabels \/ lab[1] # lab[2])
        /\ \E c1 \in SeqsUpTo(DetsFor(lab, 1), MaxDet), s1 \in SeqsUpTo(DetsFor(lab, 1), 1) :
              det = [g \in G |-> IF g = 1 THEN [cb |-> c1, sc |-> s1] ELSE Empty]
        /\ orig = det /\ step = -1
(* second step of the set-up (parallel enumeration): lists of groups 2 and 3 *)
Build == /\ step = -1
         /\ \E c2 \in SeqsUpTo(DetsFor(lab, 2), MaxDet), s2 \in SeqsUpTo(DetsFor(lab, 2), 1), c3 \in SeqsUpTo(DetsFor(lab, 3), 1) :
               /\ det' = [det EXCEPT ![2] = [cb |-> c2, sc |-> s2], ![3] = [cb |-> c3, sc |-> <<>>]]
               /\ orig' = det'
         /\ step' = 0 /\ UNCHANGED lab
DoSwap == /\ step >= 0 /\ step < 2
          /\ det' = Swap(det, lab, 1, 2)
          /\ step' = step + 1
          /\ UNCHANGED <<lab, orig>>
Spec == Init /\ [][Build \/ DoSwap]_vars
(* C15: every temporary swap is undone exactly *)
SwapInvolution == step = 2 => \A g \in G : SameBag(det[g].cb, orig[g].cb) /\ SameBag(det[g].sc, orig[g].sc)
ProbeNeutral   == step = 2 => \A g \in G : SumV(det[g].cb) + SumV(det[g].sc) = SumV(orig[g].cb) + SumV(orig[g].sc)
ThirdUntouched == step >= 0 => det[3] = orig[3]
(* a swap moves exactly the mutual determinants: totals of the pair are exchanged parts *)
StepZero == step <= 0
StepZeroShared == step <= 0 /\ lab[3] = lab[1]
RECURSIVE SumVals(_)
SumVals(q) == IF q = <<>> THEN 0 ELSE q[1].v + q[1].to + SumVals(Tail(q))
Idx == Len(det[1].cb) + 3 * Len(det[2].cb) + 5 * Len(det[1].sc) + 7 * Len(det[2].sc) + 11 * Len(det[3].cb)
       + SumVals(det[1].cb) + 2 * SumVals(det[2].cb) + SumVals(det[1].sc) + 3 * SumVals(det[2].sc) + SumVals(det[3].cb)
       + (IF lab[1] = lab[2] THEN 1 ELSE 0) + (IF lab[3] = lab[1] THEN 2 ELSE 0)
EmitInv == (Emit /\ step = 0 /\ Idx % EmitMod = EmitRes) =>
   PrintT(ToJson([lab |-> lab, det |-> det, after1 |-> Swap(det, lab, 1, 2), after2 |-> Swap(Swap(det, lab, 1, 2), lab, 1, 2)]))
=============================================================================
