---------------------------- MODULE MC_Iterative ----------------------------
EXTENDS Iterative, Json
CONSTANTS P, V, Emit
VARIABLES q, p0, hb, co, stage
vars == <<q, p0, hb, co, stage>>
MC_Pairs3 == << <<1,2>>, <<2,3>>, <<1,3>> >>                 \* one cluster of three groups
MC_Pairs22 == << <<1,2>>, <<3,4>> >>                          \* two clusters of two
MC_Pairs32 == << <<1,2>>, <<2,3>>, <<4,5>> >>                 \* a chain of three and a pair
Zero == [k \in 1..NP |-> 0]
Init == /\ q \in [G -> {-1, 1}] /\ p0 \in [G -> P]
        /\ hb = Zero /\ co = Zero /\ stage = 0
(* second step (so that TLC's workers share the enumeration): the interaction values *)
Pick == /\ stage = 0 /\ stage' = 1
        /\ hb' \in [1..NP -> V] /\ co' \in [1..NP -> V]
        /\ UNCHANGED <<q, p0>>
Next == Pick
Spec == Init /\ [][Next]_vars
All == 1..NP
(* clusters = connected components; for the two-cluster pair lists: pairs touching group 1 vs the rest *)
RECURSIVE Reach(_, _)
Reach(S, n) == IF n = 0 THEN S ELSE Reach(S \cup {k \in All : Members({k}) \cap Members(S) # {}}, n - 1)
C1 == Reach({1}, NP)
C2 == All \ C1
FixedPointAfterConvergence == stage = 1 => FixedPoint(All, q, p0, hb, co)
ClusterIndependence == (stage = 1 /\ C2 # {}) => Independent(C1, C2, q, p0, hb, co) /\ Independent(C2, C1, q, p0, hb, co)
Terminates == stage = 1 => Run(All, q, p0, hb, co).passes <= 10
EmitInv == (Emit /\ stage = 1) => PrintT(ToJson([q |-> q, p0 |-> p0, hb |-> hb, co |-> co, pairs |-> Pairs,
                                  dets |-> Run(All, q, p0, hb, co).dets, passes |-> Run(All, q, p0, hb, co).passes,
                                  c1 |-> C1, alone |-> Run(C1, q, p0, hb, co).dets]))
=============================================================================
