SPECIFICATION Spec
CONSTANTS
  MaxLen = 4
  Models = {1}
  Alts = {" ", "B"}
  Keys <- MC_KeysChains
  ResNames = {"ASP", "VAL"}
  AtomNames = {"CA"}
  WithIcode = TRUE
  Emit = FALSE
INVARIANT TopUpAgrees
INVARIANT NeverMerges
CHECK_DEADLOCK FALSE
