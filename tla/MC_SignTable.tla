---------------------------- MODULE MC_SignTable ----------------------------
EXTENDS SignTable, Json
CONSTANTS Emit
VARIABLES q1, m1, q2, m2, v, qi
vars == <<q1, m1, q2, m2, v, qi>>
Models == {32, 38, 45, 65, 100, 125}
Init == q1 \in {-1, 1} /\ q2 \in {-1, 1} /\ m1 \in Models /\ m2 \in Models /\ v \in {1, 7} /\ qi \in {-2, -1, 1, 2, 3}
Next == UNCHANGED vars
Spec == Init /\ [][Next]_vars
PairTable == DeclPair(q1, q2, MechNonIter(q1, m1, q2, m2, v))
IonTable  == Sgn(MechIon(qi, v)) = -Sgn(qi)
EmitInv == Emit => PrintT(ToJson([q1 |-> q1, m1 |-> m1, q2 |-> q2, m2 |-> m2, v |-> v, qi |-> qi,
                                  d |-> MechNonIter(q1, m1, q2, m2, v), ion |-> MechIon(qi, v)]))
=============================================================================
