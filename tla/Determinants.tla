---------------------------- MODULE Determinants ----------------------------
(***************************************************************************)
(* The control flow of ConformationContainer.calculate_pka and of          *)
(* MolecularContainer.average_of_conformations, as far as it decides       *)
(* whether a reported pKa equals model pKa + desolvation + the listed      *)
(* determinants (C02).                                                     *)
(*                                                                         *)
(* dirty = groups whose determinant list changed since their total was     *)
(* last computed.  The property: at every observation point dirty = {}     *)
(* and pka[g] = Sum(g).                                                    *)
(***************************************************************************)
EXTENDS Integers, Sequences, FiniteSets, TLC

CONSTANTS G,               \* groups
          Vals,            \* determinant values
          MaxDets,         \* bound on list length
          Models, DesVals, \* initial model pKa / desolvation values
          Shared,          \* parameter shared_determinants
          RemovePen,       \* parameter remove_penalised_group
          RecomputeAlways  \* TRUE: totals recomputed after coupling_effects unconditionally (repaired code)

VARIABLES phase, model, des, det, pka, dirty, pen
vars == <<phase, model, des, det, pka, dirty, pen>>

RECURSIVE SumSeq(_)
SumSeq(s) == IF s = <<>> THEN 0 ELSE s[1].v + SumSeq(Tail(s))
Sum(g) == model[g] + des[g] + SumSeq(det[g])

Init == /\ phase = "scoring"
        /\ model \in [G -> Models]
        /\ des \in [G -> DesVals]
        /\ det = [g \in G |-> <<>>]
        /\ pka = [g \in G |-> 0]
        /\ dirty = G
        /\ pen = {}

(* set_determinants / set_backbone_determinants / ...: append a determinant *)
AddDet(g, to, v) ==
  /\ phase = "scoring" /\ to # g /\ Len(det[g]) < MaxDets
  /\ det' = [det EXCEPT ![g] = Append(@, [to |-> to, v |-> v])]
  /\ dirty' = dirty \cup {g}
  /\ UNCHANGED <<phase, model, des, pka, pen>>
EndScoring == phase = "scoring" /\ phase' = "totals" /\ UNCHANGED <<model, des, det, pka, dirty, pen>>
(* for group in self.groups: group.calculate_total_pka() *)
TotalAll ==
  /\ phase = "totals"
  /\ pka' = [g \in G |-> Sum(g)]
  /\ dirty' = {}
  /\ phase' = "coupling"
  /\ UNCHANGED <<model, des, det, pen>>

(* share_determinants(sys): for each partner the value of largest magnitude is written to every member *)
AbsV(x) == IF x < 0 THEN -x ELSE x
Targets(sys) == {d.to : d \in UNION {{det[g][k] : k \in 1..Len(det[g])} : g \in sys}}
MaxFor(sys, t) == LET vs == {d.v : d \in {x \in UNION {{det[g][k] : k \in 1..Len(det[g])} : g \in sys} : x.to = t}} IN
                  CHOOSE v \in vs : \A w \in vs : AbsV(w) <= AbsV(v)
RECURSIVE SetAll(_, _, _)
(* set_determinant on a list: overwrite the first entry towards t, else append *)
SetOne(s, t, v) == IF \E k \in 1..Len(s) : s[k].to = t
                   THEN LET k == CHOOSE k \in 1..Len(s) : s[k].to = t /\ \A j \in 1..(k - 1) : s[j].to # t IN
                        [s EXCEPT ![k] = [to |-> t, v |-> v]]
                   ELSE Append(s, [to |-> t, v |-> v])
SetAll(s, ts, sys) == IF ts = {} THEN s
                      ELSE LET t == CHOOSE x \in ts : TRUE IN SetAll(SetOne(s, t, MaxFor(sys, t)), ts \ {t}, sys)
(* coupling_effects: optional sharing inside a covalently coupled system, then the penalised labels *)
Coupling(sys, p) ==
  /\ phase = "coupling"
  /\ p \subseteq sys
  /\ IF Shared /\ Cardinality(sys) >= 2
     THEN /\ det' = [g \in G |-> IF g \in sys THEN SetAll(det[g], Targets(sys), sys) ELSE det[g]]
          /\ dirty' = dirty \cup {g \in sys : SetAll(det[g], Targets(sys), sys) # det[g]}
     ELSE UNCHANGED <<det, dirty>>
  /\ pen' = p
  /\ phase' = "remove"
  /\ UNCHANGED <<model, des, pka>>
(* if remove_penalised_group and penalised: remove determinants towards penalised groups; recompute *)
Removed(s) == SelectSeq(s, LAMBDA d : d.to \notin pen)
Remove ==
  /\ phase = "remove"
  /\ IF RemovePen /\ pen # {}
     THEN /\ det' = [g \in G |-> Removed(det[g])]
          /\ pka' = [g \in G |-> model[g] + des[g] + SumSeq(Removed(det[g]))]     \* recomputed inside the branch
          /\ dirty' = {}
     ELSE IF RecomputeAlways
          THEN /\ pka' = [g \in G |-> Sum(g)] /\ dirty' = {} /\ UNCHANGED det
          ELSE UNCHANGED <<det, pka, dirty>>
  /\ phase' = "observe"
  /\ UNCHANGED <<model, des, pen>>

Next == \/ \E g \in G, to \in G, v \in Vals : AddDet(g, to, v)
        \/ EndScoring \/ TotalAll
        \/ \E sys \in SUBSET G : \E p \in SUBSET sys : Cardinality(p) <= 1 /\ Coupling(sys, p)
        \/ Remove
Spec == Init /\ [][Next]_vars

AtObservation(P) == phase = "observe" => P
C02_SumIdentity == AtObservation(\A g \in G : pka[g] = Sum(g))
C02_Clean       == AtObservation(dirty = {})

(* ---- averaging: AVR value = sum over the conformations that contain the group / divisor -------- *)
(* x: sequence (one entry per conformation) of records [has, pka, model, des, d]; identity per conformation assumed *)
AvgIdentity(x, divisorAll) ==
  LET found == {c \in 1..Len(x) : x[c].has}
      n == IF divisorAll THEN Len(x) ELSE Cardinality(found)
      S(f(_)) == LET RECURSIVE Go(_) Go(k) == IF k = 0 THEN 0 ELSE (IF x[k].has THEN f(x[k]) ELSE 0) + Go(k - 1) IN Go(Len(x))
      Pk(r) == r.pka  De(r) == r.des  Dd(r) == r.d
      first == CHOOSE c \in found : \A e \in found : c <= e
  IN found # {} =>
     \* (sum pka)/n = model(first) + (sum des)/n + (sum d)/n   <=>  sum pka = n*model + sum des + sum d
     S(Pk) = n * x[first].model + S(De) + S(Dd)
=============================================================================
