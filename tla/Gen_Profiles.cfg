SPECIFICATION Spec
CONSTANTS
  Emit = TRUE
  MaxW = 1024
INVARIANT EmitInv
INVARIANT GridAgree
INVARIANT WinSubset
INVARIANT ChargeAxioms
INVARIANT TotalsSignMonotone
INVARIANT BracketInv
INVARIANT BisectResult
INVARIANT BisectTerminates
CONSTRAINT NoSteps
CHECK_DEADLOCK FALSE
