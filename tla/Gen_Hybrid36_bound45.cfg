SPECIFICATION Spec
CONSTANTS
  Widths = {4,5}
  SegLen = 60
  SegStarts <- BoundaryStarts
  Emit = TRUE
INVARIANT RoundTrip
INVARIANT EncodeAgree
INVARIANT InRangeInv
INVARIANT JudgeAgree
INVARIANT LastIsMax
INVARIANT EmitInv
PROPERTY Monotone
CHECK_DEADLOCK FALSE
