----------------------------- MODULE Trace_Run -----------------------------
(***************************************************************************)
(* Code -> spec: one record per real run of propka (projection by           *)
(* pkv/observe.py; every number an integer: micro-pKa, 1/100 charge,        *)
(* milli-Angstrom, 1e-4 buried fraction).  Each invariant below is the      *)
(* declarative face of one clause of C01, C02, C15 or C16, evaluated on     *)
(* every conformation of the run, the average (AVR) and the parsed .pka.    *)
(***************************************************************************)
EXTENDS Integers, Sequences, FiniteSets, TLC, Json, IOUtils, SequencesExt
Trace == JsonDeserialize(IOEnv.TRACE_FILE)
VARIABLE i
Init == i \in 1..Len(Trace)
Next == UNCHANGED i
Spec == Init /\ [][Next]_i
R == Trace[i]
Abs(x) == IF x < 0 THEN -x ELSE x
Near(x, y, e) == Abs(x - y) <= e
SetOf(s) == {s[j] : j \in 1..Len(s)}
Confs == SetOf(R.confs)
AllConfs == Confs \cup {"AVR"}
Gs(c) == R.G[c]
RECURSIVE SumDet(_, _)
SumDet(d, n) == IF n = 0 THEN 0 ELSE d[n][3] + SumDet(d, n - 1)

(* ========================== C01: census ================================== *)
(* literal table of the statement (micro-pKa) *)
ModelOf == [ASP |-> 3800000, GLU |-> 4500000, HIS |-> 6500000, CYS |-> 9000000, TYR |-> 10000000,
            LYS |-> 10500000, ARG |-> 12500000]
NTermModel == 8000000
CTermModel == 3200000
DefAtom == [ASP |-> "CG", GLU |-> "CD", HIS |-> "CG", CYS |-> "SG", TYR |-> "OH", LYS |-> "NZ", ARG |-> "CZ"]
TermOx == {"OXT", "O''"}
Chains == SetOf(R.opts.chains)
(* the structure the options select: ignorable residues and deselected chains removed *)
Sel == SelectSeq(R.inres, LAMBDA r : r.ign = 0 /\ (Chains = {} \/ r.chain \in Chains))
Has(r, n) == \E k \in 1..Len(r.names) : r.names[k] = n
HasTermOx(r) == \E k \in 1..Len(r.names) : r.names[k] \in TermOx
(* (operators take the selected residue sequence as an argument so that TLC evaluates it once) *)
(* previous amino-acid (ATOM) residue of the same model, 0 if none *)
PrevProt(sel, j) == LET c == {p \in 1..(j - 1) : sel[p].het = 0 /\ sel[p].model = sel[j].model} IN
                    IF c = {} THEN 0 ELSE CHOOSE p \in c : \A q \in c : q <= p
ChainStart(sel, j) == LET p == PrevProt(sel, j) IN
                      IF p = 0 THEN TRUE
                      ELSE \/ sel[j].nter > sel[p].nter          \* a TER record in between
                           \/ HasTermOx(sel[p])
(* titrate-only: a residue is listed iff (chain, number, insertion code) matches an entry *)
ListedRes(r) == IF R.opts.tonly = 0 THEN TRUE
                ELSE \E k \in 1..Len(R.opts.tlist) :
                        R.opts.tlist[k][1] = r.chain /\ R.opts.tlist[k][2] = r.num /\ R.opts.tlist[k][3] = r.ic
(* expected sites as <<residue position in the file, site type, model pKa>> *)
Census(sel) ==
  LET prot == {q \in 1..Len(sel) : sel[q].het = 0 /\ ListedRes(sel[q])}
      side == {<<sel[j].pos, sel[j].resn, ModelOf[sel[j].resn]>> :
                 j \in {q \in prot : sel[q].resn \in DOMAIN DefAtom /\ Has(sel[q], DefAtom[sel[q].resn])}}
      nsites == {<<sel[j].pos, "N+", NTermModel>> : j \in {q \in prot : Has(sel[q], "N") /\ ChainStart(sel, q)}}
      csites == {<<sel[j].pos, "C-", CTermModel>> : j \in {q \in prot : HasTermOx(sel[q])}}
  IN side \cup nsites \cup csites
DeclCensus == Census(Sel)
(* what the run reports for conformation c: protein groups used in the results *)
Reported(c) == {k \in 1..Len(Gs(c)) : Gs(c)[k].use = 1 /\ Gs(c)[k].het = 0}
RepSites(c) == {<<Gs(c)[k].rpos, Gs(c)[k].rtype, Gs(c)[k].model6>> : k \in Reported(c)}
CensusApplies == R.census = 1
C01_Census     == CensusApplies => LET dc == DeclCensus IN \A c \in AllConfs : RepSites(c) = dc
C01_ExactlyOnce == CensusApplies => \A c \in AllConfs : Cardinality(Reported(c)) = Cardinality(RepSites(c))
(* a reported group carries the identity of the residue its atom was read from: chain, number, insertion code (and the
   residue name where the position holds one residue type) - nothing is reported under a label that is not in the file *)
C01_Identity == \A c \in Confs : \A k \in Reported(c) :
                   LET g == Gs(c)[k] IN
                   (g.rpos >= 1 /\ g.rpos <= Len(R.inres)) =>
                      LET r == R.inres[g.rpos] IN
                      /\ (g.chain = r.chain \/ (g.chain = "_" /\ r.chain = " "))
                      /\ g.num = r.num /\ g.ic = r.ic
                      /\ (R.onetype = 1 => g.resn = r.resn)
(* no chimera: a conformation holds one residue type per position (chain, number, insertion code) whenever the input
   does (R.onetype: per model, a position carries one residue name among the records shared by all conformations, and
   per alternate-location label).  R.resat[c] = distinct <<chain, number, code, residue name>> of the atoms of c. *)
C01_OneResiduePerPosition ==
   R.onetype = 1 => \A c \in Confs : LET s == R.resat[c] IN
      \A j, k \in 1..Len(s) : (s[j][1] = s[k][1] /\ s[j][2] = s[k][2] /\ s[j][3] = s[k][3]) => s[j][4] = s[k][4]
(* bridged cysteines: non-titrating, 99.99 ; all other reported sites titrate *)
Bridged(pos) == \E k \in 1..Len(R.bridged) : R.bridged[k] = pos
C01_Bridge == CensusApplies => \A c \in Confs : \A k \in Reported(c) :
                 LET g == Gs(c)[k] IN
                 IF g.rtype = "CYS" /\ Bridged(g.rpos) THEN g.titr = 0 /\ g.pka6 = 99990000 /\ g.bridged = 1
                 ELSE g.titr = 1 /\ g.bridged = 0
(* ligand groups and ions: configured model pKa and charge of their type *)
Cfg == R.cfg
C01_Ligands == \A c \in Confs : \A k \in 1..Len(Gs(c)) :
                 LET g == Gs(c)[k] IN
                 /\ (g.type = "ION" => g.resn \in DOMAIN Cfg.ions /\ g.q100 = Cfg.ions[g.resn])
                 /\ (g.het = 1 /\ g.type # "ION" /\ g.titr = 1) =>
                       /\ g.type \in DOMAIN Cfg.charge /\ g.q100 = Cfg.charge[g.type]
                       /\ (g.ckey \in DOMAIN Cfg.custom => g.model6 = Cfg.custom[g.ckey])
                       /\ (g.ckey \notin DOMAIN Cfg.custom => g.type \in DOMAIN Cfg.model /\ g.model6 = Cfg.model[g.type])
(* the summary lists every reported group of the average once *)
F == R.file
SumLabels == [k \in 1..Len(F.summary) |-> F.summary[k].label]
AvrUsed == SelectSeq(Gs("AVR"), LAMBDA g : g.use = 1)
Count(seq, x) == Cardinality({k \in 1..Len(seq) : seq[k] = x})
C01_SummaryNotPenalised ==
   R.hasfile = 1 => \A k \in 1..Len(AvrUsed) : AvrUsed[k].pen = -1 =>
        Count(SumLabels, AvrUsed[k].label) = Cardinality({j \in 1..Len(AvrUsed) : AvrUsed[j].label = AvrUsed[k].label /\ AvrUsed[j].pen = -1})
                                             + Cardinality({j \in 1..Len(AvrUsed) : AvrUsed[j].label = AvrUsed[k].label /\ AvrUsed[j].pen # -1 /\ R.opts.keeppen = 1})
C01_SummaryNothingElse ==
   R.hasfile = 1 => \A k \in 1..Len(SumLabels) : \E j \in 1..Len(AvrUsed) : AvrUsed[j].label = SumLabels[k]
C01_SummaryPenalisedToo ==
   R.hasfile = 1 => \A k \in 1..Len(AvrUsed) : AvrUsed[k].pen # -1 => Count(SumLabels, AvrUsed[k].label) >= 1
C01_SummaryModel ==
   R.hasfile = 1 => \A k \in 1..Len(F.summary) : \E j \in 1..Len(AvrUsed) :
        /\ AvrUsed[j].label = F.summary[k].label
        /\ Near(F.summary[k].model * 10000, AvrUsed[j].model6, 5001)

(* ========================== C02: sum identity and rendering =================== *)
NDet(g) == Len(g.sc) + Len(g.bb) + Len(g.cb)
SumAll(g) == g.model6 + g.ev6 + g.el6 + SumDet(g.sc, Len(g.sc)) + SumDet(g.bb, Len(g.bb)) + SumDet(g.cb, Len(g.cb))
C02_SumIdentity == \A c \in AllConfs : \A k \in 1..Len(Gs(c)) :
                      LET g == Gs(c)[k] IN
                      (g.type # "ION" /\ (g.use = 1 \/ g.titr = 1)) =>
                          (g.bridged = 1 /\ g.pka6 = 99990000) \/ Near(g.pka6, SumAll(g), 3 + NDet(g))
Printed == SelectSeq(Gs("AVR"), LAMBDA g : g.use = 1 /\ (g.pen = -1 \/ R.opts.keeppen = 1))
RowsMatch(rows, dets) == /\ Len(rows) = Len(dets)
                         /\ \A k \in 1..Len(rows) : k <= Len(dets) =>
                               rows[k][1] = dets[k][2] /\ Near(rows[k][2] * 10000, dets[k][3], 5001)
Renders(d, g) == /\ d.label = g.label
                 /\ Near(d.pka * 10000, g.pka6, 5001)
                 /\ Near(d.ev * 10000, g.ev6, 5001) /\ Near(d.el * 10000, g.el6, 5001)
                 /\ d.nv = g.nv
                 /\ Near(d.buried * 100, g.bur4, 100)
                 /\ RowsMatch(d.sc, g.sc) /\ RowsMatch(d.bb, g.bb) /\ RowsMatch(d.cb, g.cb)
C02_RenderedTable == R.hasfile = 1 =>
                       /\ Len(F.det_groups) = Len(Printed)
                       /\ \A k \in 1..Len(Printed) : \E j \in 1..Len(F.det_groups) : Renders(F.det_groups[j], Printed[k])
                       /\ \A j \in 1..Len(F.det_groups) : \E k \in 1..Len(Printed) : Renders(F.det_groups[j], Printed[k])
C02_RenderedSummary == R.hasfile = 1 =>
                       \A k \in 1..Len(Printed) : \E j \in 1..Len(F.summary) :
                           /\ F.summary[j].label = Printed[k].label
                           /\ Near(F.summary[j].pka * 10000, Printed[k].pka6, 5001)

(* ========================== C14: un-listed groups are partners and environment, nothing more ======================= *)
(* R.others[c] = <<input line, type, titrates, scored>> for the groups that neither titrate nor are reported: under a
   titrate-only list no desolvation (volume, local term, neighbour count) is computed for them *)
C14_UnlistedUnscored == R.opts.tonly = 1 =>
                          \A c \in Confs : \A k \in 1..Len(R.others[c]) : R.others[c][k][3] = 0 => R.others[c][k][4] = 0

(* ========================== C15: stars and symmetry ============================= *)
ByGid(c, gid) == {k \in 1..Len(Gs(c)) : Gs(c)[k].gid = gid}
C15_Symmetric == \A c \in Confs : \A k \in 1..Len(Gs(c)) : \A n \in 1..Len(Gs(c)[k].ncc) :
                    \E j \in ByGid(c, Gs(c)[k].ncc[n]) : \E m \in 1..Len(Gs(c)[j].ncc) : Gs(c)[j].ncc[m] = Gs(c)[k].gid
C15_StarIffPartner == \A c \in Confs : \A k \in 1..Len(Gs(c)) :
                    Gs(c)[k].use = 1 => ((Gs(c)[k].star = 1) <=> (Len(Gs(c)[k].ncc) > 0))
C15_FileStars == R.hasfile = 1 => \A j \in 1..Len(F.det_groups) : \E k \in 1..Len(Printed) :
                    /\ Renders(F.det_groups[j], Printed[k])
                    /\ (F.det_groups[j].star <=> Printed[k].star = 1)

(* ========================== C16: signs and bounds ================================ *)
Scal == Cfg.scal         \* sidechain_interaction etc. in micro units ; coulomb_cutoff1 in milli-Angstrom
Exceptions == {Scal.COO_HIS_exception, Scal.OCO_HIS_exception, Scal.CYS_HIS_exception, Scal.CYS_CYS_exception}
(* Coulomb maximum: 244.12 / (30 * c1) pKa units, in micro: 244120000 * 1000 / (30 * c1_milli) *)
CoulMax == ((244120000 \div 30) \div Scal.coulomb_cutoff1) * 1000 + 1000    \* rounded up by < 1e-3
Scored(c) == {k \in 1..Len(Gs(c)) : Gs(c)[k].titr = 1 /\ Gs(c)[k].bridged = 0 /\ Gs(c)[k].type # "ION"}
C16_Desolvation == \A c \in Confs : \A k \in Scored(c) : LET g == Gs(c)[k] IN
                      /\ (g.q100 < 0 => g.ev6 >= 0 /\ g.el6 >= 0)
                      /\ (g.q100 > 0 => g.ev6 <= 0 /\ g.el6 <= 0)
C16_Buried == \A c \in AllConfs : \A k \in 1..Len(Gs(c)) : Gs(c)[k].bur4 >= 0 /\ Gs(c)[k].bur4 <= 10000
C16_Backbone == \A c \in Confs : \A k \in Scored(c) : LET g == Gs(c)[k] IN
                      \A n \in 1..Len(g.bb) : (g.q100 < 0 => g.bb[n][3] <= 0) /\ (g.q100 > 0 => g.bb[n][3] >= 0)
(* a Coulomb determinant from a charged partner: stabilising for opposite, destabilising for like charges:
   acid (q<0): + partner lowers, - partner raises ; base (q>0): - partner raises, + partner lowers  ==> v * q_partner <= 0 *)
C16_CoulombSign == \A c \in Confs : \A k \in Scored(c) : LET g == Gs(c)[k] IN
                      \A n \in 1..Len(g.cb) : (g.cb[n][5] > 0 => g.cb[n][3] <= 0) /\ (g.cb[n][5] < 0 => g.cb[n][3] >= 0)
C16_CoulombBound == \A c \in Confs : \A k \in Scored(c) : LET g == Gs(c)[k] IN
                      \A n \in 1..Len(g.cb) :
                         LET qi == IF g.cb[n][4] = "ION" /\ Abs(g.cb[n][5]) > 100 THEN Abs(g.cb[n][5]) ELSE 100 IN
                         Abs(g.cb[n][3]) * 100 <= (CoulMax + 2) * qi
(* a Coulomb determinant comes from a charged titratable group or from an ion of the configured table - never from a
   group that neither titrates nor is an ion (without a titrate-only list, which makes unlisted groups non-titrating
   partners on purpose) *)
C16_CoulombSource == R.opts.tonly = 0 =>
                     \A c \in Confs : \A k \in Scored(c) : LET g == Gs(c)[k] IN
                      \A n \in 1..Len(g.cb) :
                         \/ g.cb[n][6] = 1
                         \/ (g.cb[n][4] = "ION" /\ \E j \in ByGid(c, g.cb[n][1]) : Gs(c)[j].resn \in DOMAIN Cfg.ions)
(* the configured exception values belong to pair classes: COO-HIS, OCO-HIS, CYS-HIS, CYS-CYS (either order) *)
ExcFor(t1, t2) ==
  LET p == {t1, t2} IN
  IF p = {"COO", "HIS"} THEN Scal.COO_HIS_exception
  ELSE IF p = {"OCO", "HIS"} THEN Scal.OCO_HIS_exception
  ELSE IF p = {"CYS", "HIS"} THEN Scal.CYS_HIS_exception
  ELSE IF p = {"CYS"} THEN Scal.CYS_CYS_exception
  ELSE 0
C16_SidechainBound == \A c \in Confs : \A k \in Scored(c) : LET g == Gs(c)[k] IN
                      \A n \in 1..Len(g.sc) :
                         \/ Abs(g.sc[n][3]) <= 2 * Scal.sidechain_interaction + 2
                         \/ Abs(g.sc[n][3]) <= ExcFor(g.type, g.sc[n][4]) + 2
(* acid-base pair of reported protein side chains: equal and opposite Coulomb determinants *)
C16_AcidBasePair == \A c \in Confs : \A k \in Scored(c) : LET g == Gs(c)[k] IN
                      (g.het = 0 /\ g.pen = -1) =>         \* "reported": penalised groups are not printed
                      \A n \in 1..Len(g.cb) :
                         \A j \in ByGid(c, g.cb[n][1]) :
                            LET h == Gs(c)[j] IN
                            (j \in Scored(c) /\ h.het = 0 /\ h.pen = -1 /\ h.q100 * g.q100 < 0) =>
                                \E m \in 1..Len(h.cb) : h.cb[m][1] = g.gid /\ Near(h.cb[m][3], -g.cb[n][3], 2)
=============================================================================
