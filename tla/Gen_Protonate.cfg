SPECIFICATION Spec
CONSTANTS
  Emit = TRUE
INVARIANT EmitInv


CHECK_DEADLOCK FALSE
