------------------------------ MODULE Geometry ------------------------------
(***************************************************************************)
(* Rigid motions that map the coordinate lattice onto itself (C04): the 24 *)
(* proper signed permutation matrices and integer translations.            *)
(* A rotation is <<p, s>>: p a permutation of <<1,2,3>>, s a sign vector;  *)
(* (R v)[i] = s[i] * v[p[i]].   Proper iff sign(p) * s1*s2*s3 = +1.        *)
(***************************************************************************)
EXTENDS Integers, Sequences, FiniteSets, TLC

Perms == { <<1,2,3>>, <<2,3,1>>, <<3,1,2>>, <<1,3,2>>, <<3,2,1>>, <<2,1,3>> }
Even(p) == p \in { <<1,2,3>>, <<2,3,1>>, <<3,1,2>> }
Signs == {-1, 1} \X {-1, 1} \X {-1, 1}
Proper(p, s) == (IF Even(p) THEN 1 ELSE -1) * s[1] * s[2] * s[3] = 1
Rot24 == { r \in Perms \X Signs : Proper(r[1], r[2]) }
ApplyRot(r, v) == << r[2][1] * v[r[1][1]], r[2][2] * v[r[1][2]], r[2][3] * v[r[1][3]] >>
Move(r, t, v) == LET w == ApplyRot(r, v) IN << w[1] + t[1], w[2] + t[2], w[3] + t[3] >>

SqDist(p, q) == (p[1]-q[1])*(p[1]-q[1]) + (p[2]-q[2])*(p[2]-q[2]) + (p[3]-q[3])*(p[3]-q[3])
(* exact ties with a cut-off: the inputs on which floating point may decide either way *)
KnifeEdge(pts, cutoffs) == \E a, b \in DOMAIN pts : a # b /\ SqDist(pts[a], pts[b]) \in {c * c : c \in cutoffs}
=============================================================================
