SPECIFICATION Spec
CONSTANTS
  MaxDet = 2
  Emit = TRUE
INVARIANT EmitInv

CONSTRAINT StepZero
CHECK_DEADLOCK FALSE
