SPECIFICATION Spec
CONSTANTS
  MaxDet = 2
  EqualLabels = TRUE
  EmitMod = 1
  EmitRes = 0
  Emit = TRUE
INVARIANT EmitInv

CONSTRAINT StepZero
CHECK_DEADLOCK FALSE
