SPECIFICATION Spec
CONSTANTS
  MaxDet = 2
  EqualLabels = TRUE
  Emit = TRUE
INVARIANT EmitInv

CONSTRAINT StepZero
CHECK_DEADLOCK FALSE
