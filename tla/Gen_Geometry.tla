---------------------------- MODULE Gen_Geometry ----------------------------
(* Emits the rigid motions to be replayed on real structures: the 24 lattice     *)
(* rotations x translation classes (per axis: none, one lattice unit, half a     *)
(* cell, a cell edge, towards the upper / lower end of the coordinate field).    *)
EXTENDS Geometry, Json
VARIABLES rot, tc
TClasses == {"zero", "unit", "halfcell", "cell", "high", "low"}
Init == rot \in Rot24 /\ tc \in TClasses \X TClasses \X TClasses
Next == UNCHANGED <<rot, tc>>
Spec == Init /\ [][Next]_<<rot, tc>>
EmitInv == PrintT(ToJson([p |-> rot[1], s |-> rot[2], t |-> tc]))
=============================================================================
