SPECIFICATION Spec
CONSTANTS
  MaxBonds = 3
  N = 3
  MaxEdges = 3
  MaxHosts = 3
  Types = {"O.co2"}
  PkVals = {3, 4}
  Emit = FALSE
INVARIANT TiedOK
CHECK_DEADLOCK FALSE
