--------------------------- MODULE MC_Conformations ---------------------------
(* All inputs of up to MaxLen atoms over a small alphabet; the code-shaped top-up   *)
(* (reference atoms, label keys) against the declared completion.                    *)
EXTENDS Conformations, Json
CONSTANTS MaxLen, Models, Alts, Keys, ResNames, AtomNames, WithIcode, Emit
VARIABLES s
AtomRecs == [m : Models, alt : Alts, key : Keys, resn : ResNames, nm : AtomNames]
MC_Keys == { <<"A", 1, " ">>, <<"A", 2, " ">> }
MC_KeysGen == { <<"A", 1, " ">>, <<"A", 1, "A">>, <<"A", 2, " ">> }
MC_KeysChains == { <<"A", 1, " ">>, <<"B", 1, " ">>, <<"B", 2, " ">> }   \* two chains that share a residue number
MC_KeysTwins == { <<"A", 1, " ">>, <<"A", 1, "A">> }
(* well-formed: one residue name per (conformation, position); no duplicated atom in a conformation *)
WF(q) == /\ \A i, j \in 1..Len(q) : (i # j /\ ConfOf(q[i]) = ConfOf(q[j]) /\ q[i].key = q[j].key) =>
                                        (q[i].resn = q[j].resn /\ q[i].nm # q[j].nm)
Init == s = <<>>
Grow == /\ Len(s) < MaxLen
        /\ \E r \in {x \in AtomRecs : WF(Append(s, x))} : s' = Append(s, r)
Spec == Init /\ [][Grow]_s
TopUpAgrees == \A c \in Confs(s) : Completed(s, c, MechTopUp(s, c, WithIcode))
NeverMerges == \A c \in Confs(s) : NeverMerge(MechTopUp(s, c, WithIcode))
EmitInv == (Emit /\ Len(s) > 0) => PrintT(ToJson([s |-> s]))
=============================================================================
