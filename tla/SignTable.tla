------------------------------ MODULE SignTable ------------------------------
(***************************************************************************)
(* Signs of Coulomb contributions (C16).                                   *)
(* determinants.add_coulomb_{acid,base,ion}_pair, set_ion_determinants,    *)
(* iterative.add_iterative_{acid,base,ion}_pair.                           *)
(*                                                                         *)
(* Declarative face (statement): a Coulomb determinant listed for a group  *)
(* from a charged partner shifts the pKa in the stabilising direction for  *)
(* opposite charges and in the destabilising direction for like charges:   *)
(*     sign(value) = - sign(charge of the partner)                         *)
(* for acids and bases alike; the two determinants of an acid-base pair    *)
(* are equal and opposite.                                                 *)
(* Mechanism face: which member of a pair receives which signed value,     *)
(* as the code decides it from charges and model pKa values.               *)
(***************************************************************************)
EXTENDS Integers, Sequences, FiniteSets, TLC

Sgn(x) == IF x > 0 THEN 1 ELSE IF x < 0 THEN -1 ELSE 0
None == -999

(* mechanism: non-iterative pair (group1, group2) with Coulomb magnitude v > 0 -> <<det on 1, det on 2>> *)
MechNonIter(q1, m1, q2, m2, v) ==
   IF q1 < 0 /\ q2 < 0 THEN (IF m1 > m2 THEN <<v, None>> ELSE <<None, v>>)           \* the higher pKa is raised
   ELSE IF q1 > 0 /\ q2 > 0 THEN (IF m1 < m2 THEN <<-v, None>> ELSE <<None, -v>>)   \* the lower pKa is lowered
   ELSE <<q1 * v, q2 * v>>                                                           \* acid lowered, base raised
(* mechanism: ion at charge qi near a titratable group: value = -qi * E *)
MechIon(qi, e) == -qi * e

(* declaration *)
DeclSignOK(det, qpartner) == det = None \/ Sgn(det) = -Sgn(qpartner)
DeclPair(q1, q2, d) ==
   /\ DeclSignOK(d[1], q2) /\ DeclSignOK(d[2], q1)
   /\ (q1 * q2 < 0 => d[1] # None /\ d[2] # None /\ d[1] = -d[2])      \* acid-base: equal and opposite
   /\ (q1 * q2 > 0 => (d[1] = None) # (d[2] = None))                   \* like charges: exactly one member is shifted
=============================================================================
