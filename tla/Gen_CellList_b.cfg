SPECIFICATION Spec
CONSTANTS
  B = 251
  ThH = 150
  ThD = 200
  ThSS = 250
  ThFF = 170
  Offsets <- CodeOffsets
  BaseOff = {0, 250}
  BaseCells <- MC_BaseCellsQ
  Disp <- MC_DispQ
  ElPairs <- MC_ElPairsQ2
  Third = FALSE
  Emit = TRUE
INVARIANT BondsAreAllPairs
INVARIANT Irreflexive
INVARIANT BridgeBoth
INVARIANT Sound
INVARIANT Locality
INVARIANT EmitInv
CONSTRAINT InitOnly
CHECK_DEADLOCK FALSE
