SPECIFICATION Spec
CONSTANTS
  G = {1, 2, 3}
  Vals = {1, 2}
  MaxDets = 2
  Models = {4}
  DesVals = {0}
  Shared = FALSE
  RemovePen = TRUE
  RecomputeAlways = TRUE
  DivisorAll = FALSE
INVARIANT C02_SumIdentity
INVARIANT C02_Clean
CHECK_DEADLOCK FALSE
