SPECIFICATION Spec
CONSTANTS
  KeyKind = "rid"
  MaxLen = 4
  Chains = {"A", "a"}
  Nums = {1, 2}
  Ics = {" "}
  Names = {"N", "X", "OXT"}
  Alts = {" "}
  Kinds = {"ATOM"}
  RNames = {"AA"}
  WithModel = FALSE
  WithOther = FALSE
  Emit = FALSE
  ChainSets <- CS_Aa
  KeepH = FALSE
INVARIANT Agree
INVARIANT C13_ChainSelect
CHECK_DEADLOCK FALSE
