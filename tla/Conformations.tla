---------------------------- MODULE Conformations ----------------------------
(***************************************************************************)
(* Conformations (C08): input.read_pdb / conformation_sorter,              *)
(* MolecularContainer.top_up_conformations,                                *)
(* ConformationContainer.top_up_from_atoms, find_group,                    *)
(* MolecularContainer.average_of_conformations.                            *)
(*                                                                         *)
(* An input is a sequence of atoms [m, alt, key, resn, nm]: model number,  *)
(* alternate-location tag, residue position <<chain, num, icode>>, residue *)
(* name, atom name.  A conformation is <<model, letter>>.                  *)
(***************************************************************************)
EXTENDS Integers, Sequences, FiniteSets, TLC

AltName(alt) == CASE alt = " " -> "A" [] alt = "1" -> "A" [] alt = "2" -> "B" [] alt = "3" -> "C" [] OTHER -> alt
ConfOf(a) == <<a.m, AltName(a.alt)>>
Atoms(s) == {s[i] : i \in 1..Len(s)}
Confs(s) == {ConfOf(a) : a \in Atoms(s)}
(* order of conformations: by model, then by letter (conformation_sorter: model*100 + ord(letter)) *)
Ord(l) == CASE l = "A" -> 1 [] l = "B" -> 2 [] l = "C" -> 3 [] OTHER -> 9
Before(c, d) == c[1] < d[1] \/ (c[1] = d[1] /\ Ord(c[2]) < Ord(d[2]))
Id(a) == <<a.key, a.nm, a.resn>>               \* what an atom is, apart from where it came from

(* ---- declarative face ---------------------------------------------------------------------- *)
Own(s, c) == {Id(a) : a \in {x \in Atoms(s) : ConfOf(x) = c}}
Others(s, c) == UNION {Own(s, d) : d \in Confs(s) \ {c}}
NamesAt(S, key) == {x[3] : x \in {y \in S : y[1] = key}}
NeverMerge(S) == \A x \in S : Cardinality(NamesAt(S, x[1])) = 1
(* S is a correct completion of conformation c: nothing lost, nothing invented, residue types never mixed, and
   every atom c lacks that another conformation has for a residue of the same type is there *)
Completed(s, c, S) ==
   /\ Own(s, c) \subseteq S /\ S \subseteq Own(s, c) \cup Others(s, c)
   /\ NeverMerge(S)
   /\ \A x \in Others(s, c) :
        LET mine == NamesAt(S, x[1]) IN
        \/ \E y \in S : y[1] = x[1] /\ y[2] = x[2]                 \* c has an atom of that name at that position
        \/ (mine # {} /\ x[3] \notin mine)                         \* another residue type lives there: not merged
        \/ (mine = {} /\ \E y \in Others(s, c) : y[1] = x[1] /\ y[3] # x[3] /\ FALSE)

(* ---- mechanism face --------------------------------------------------------------------------- *)
(* residue_label: atom name, residue number, chain (WithIcode: plus the insertion code - repaired code) *)
Label(x, withIcode) == IF withIcode THEN <<x[2], x[1]>> ELSE <<x[2], x[1][1], x[1][2]>>
(* reference atoms: one per label; for label collisions the FIRST conformation's atom wins
   (dict comprehension over reversed(conformation_names)) *)
RECURSIVE SortConfs(_)
SortConfs(C) == IF C = {} THEN <<>>
                ELSE LET c == CHOOSE x \in C : \A y \in C \ {x} : Before(x, y) IN <<c>> \o SortConfs(C \ {c})
RefAtoms(s, withIcode) ==
   LET cs == SortConfs(Confs(s))
       all == UNION {Own(s, c) : c \in Confs(s)}
       labs == {Label(x, withIcode) : x \in all}
       firstConf(l) == CHOOSE k \in 1..Len(cs) : (\E x \in Own(s, cs[k]) : Label(x, withIcode) = l)
                                                 /\ \A j \in 1..(k - 1) : ~\E x \in Own(s, cs[j]) : Label(x, withIcode) = l
   IN {CHOOSE x \in Own(s, cs[firstConf(l)]) : Label(x, withIcode) = l : l \in labs}
(* top_up_from_atoms: a reference atom is copied when its label is missing, unless the residue number of that
   chain already holds another residue name (res_names keyed by chain, number and - repaired code - insertion code) *)
RECURSIVE TopUpFrom(_, _, _, _)
TopUpFrom(S, names, refs, withIcode) ==
   IF refs = {} THEN S
   ELSE LET x == CHOOSE r \in refs : TRUE
            k == IF withIcode THEN x[1] ELSE <<x[1][1], x[1][2]>>
            has == \E y \in S : Label(y, withIcode) = Label(x, withIcode)
        IN IF has THEN TopUpFrom(S, names, refs \ {x}, withIcode)
           ELSE IF k \in DOMAIN names /\ names[k] # x[3] THEN TopUpFrom(S, names, refs \ {x}, withIcode)
           ELSE TopUpFrom(S \cup {x}, IF k \in DOMAIN names THEN names ELSE names @@ (k :> x[3]), refs \ {x}, withIcode)
MechTopUp(s, c, withIcode) ==
   LET own == Own(s, c)
       pos(x) == IF withIcode THEN x[1] ELSE <<x[1][1], x[1][2]>>
       keys == {pos(x) : x \in own}
       names == [k \in keys |-> (CHOOSE x \in own : pos(x) = k)[3]]
   IN TopUpFrom(own, names, RefAtoms(s, withIcode), withIcode)

(* ---- averaging ----------------------------------------------------------------------------------- *)
(* vals: sequence over conformations of <<present, value>> ; the reported average *)
Present(vals) == {k \in 1..Len(vals) : vals[k][1]}
RECURSIVE SumP(_, _)
SumP(vals, k) == IF k = 0 THEN 0 ELSE (IF vals[k][1] THEN vals[k][2] ELSE 0) + SumP(vals, k - 1)
(* declared: n * avr = sum over the conformations that contain the group (n = their number) *)
MeanOverContaining(vals, avr, eps) ==
   LET n == Cardinality(Present(vals)) IN
   n > 0 => (avr * n - SumP(vals, Len(vals)) <= eps * n /\ SumP(vals, Len(vals)) - avr * n <= eps * n)
=============================================================================
