----------------------------- MODULE ParamTables -----------------------------
(***************************************************************************)
(* propka/parameters.py : Parameters.parse_line, InteractionMatrix,        *)
(* PairwiseMatrix, squared_property.                                       *)
(*                                                                         *)
(* A parameter file is a sequence of lines; the state after each line is   *)
(* what look-ups return.                                                   *)
(*                                                                         *)
(* Mechanism face: dictionaries of dictionaries over ORDERED key pairs,    *)
(*   written twice per assignment, the ordered key list of the triangular  *)
(*   matrix, the stored plain cut-off from which the squared one derives.  *)
(* Declarative face: tables over UNORDERED pairs (sets) - symmetric by     *)
(*   construction -, a default, and the pair (cut, cutsq).                 *)
(***************************************************************************)
EXTENDS Integers, Sequences, FiniteSets, TLC

CONSTANTS Keys,      \* group type names
          Syms,      \* interaction symbols, e.g. {"N","I","-"}
          PVals,     \* pairwise cut-off values <<inner, outer>>
          CutVals,   \* plain cut-offs (integers)
          MaxKeys    \* bound on the number of matrix rows

None == "none"
NoneP == <<-1, -1>>      \* "absent" for pairwise values (TLC cannot compare a tuple with a string)

VARIABLES okeys,    \* mechanism: ordered_keys of the interaction matrix
          mat,      \* mechanism: dictionary[k1][k2]  (ordered pairs -> symbol or None)
          pair,     \* mechanism: pairwise dictionary (ordered pairs -> value or None)
          dflt,     \* pairwise default
          cut,      \* mechanism: stored plain cut-off
          dmat,     \* declarative: unordered pair -> symbol or None
          dpair,    \* declarative: unordered pair -> value or None
          dcut,     \* declarative: <<cut, cutsq>>
          err,      \* last line rejected (ValueError)
          hist      \* the lines so far (history; hidden by VIEW in model checking)

mvars == <<okeys, mat, pair, dflt, cut>>
dvars == <<dmat, dpair, dcut>>
vars  == <<okeys, mat, pair, dflt, cut, dmat, dpair, dcut, err, hist>>

UPairs == {{a, b} : a \in Keys, b \in Keys}
U(a, b) == {a, b}

Init == /\ okeys = <<>>
        /\ mat = [p \in Keys \X Keys |-> None]
        /\ pair = [p \in Keys \X Keys |-> NoneP]
        /\ dflt = <<0, 0>>
        /\ cut = 0
        /\ dmat = [u \in UPairs |-> None]
        /\ dpair = [u \in UPairs |-> NoneP]
        /\ dcut = <<0, 0>>
        /\ err = FALSE
        /\ hist = <<>>

(* ---- interaction_matrix <k> v1 .. vn ------------------------------------ *)
(* mechanism: for i, group in enumerate(ordered_keys + [k]): d[group][k] = d[k][group] = v[i] *)
RECURSIVE MechRow(_, _, _, _, _)
MechRow(m, ks, k, vals, i) ==
  IF i > Len(ks) THEN m
  ELSE MechRow([m EXCEPT ![<<ks[i], k>>] = vals[i], ![<<k, ks[i]>>] = vals[i]], ks, k, vals, i + 1)
(* declaration: the row gives, for the j-th key of the file so far (and finally k itself),
   the symbol of the unordered pair; a later entry of the same row overrides an earlier one *)
RECURSIVE DeclRow(_, _, _, _, _)
DeclRow(d, ks, k, vals, i) ==
  IF i > Len(ks) THEN d
  ELSE DeclRow([d EXCEPT ![U(ks[i], k)] = vals[i]], ks, k, vals, i + 1)

MatRow(k, vals) ==
  /\ Len(okeys) < MaxKeys
  /\ IF Len(vals) = Len(okeys) + 1
     THEN LET ks == Append(okeys, k) IN
          /\ okeys' = ks
          /\ mat' = MechRow(mat, ks, k, vals, 1)
          /\ dmat' = DeclRow(dmat, ks, k, vals, 1)
          /\ err' = FALSE
     ELSE /\ UNCHANGED <<okeys, mat, dmat>>      \* ValueError, nothing stored
          /\ err' = TRUE
  /\ hist' = Append(hist, [t |-> "mat", k |-> k, vals |-> vals])
  /\ UNCHANGED <<pair, dflt, cut, dpair, dcut>>

(* ---- sidechain_cutoffs a b inner outer / default inner outer -------------- *)
PairLine(a, b, v) ==
  /\ pair' = [pair EXCEPT ![<<a, b>>] = v, ![<<b, a>>] = v]     \* insert(a,b); insert(b,a)
  /\ dpair' = [dpair EXCEPT ![U(a, b)] = v]
  /\ err' = FALSE
  /\ hist' = Append(hist, [t |-> "pair", a |-> a, b |-> b, v |-> v])
  /\ UNCHANGED <<okeys, mat, dflt, cut, dmat, dcut>>
DefaultLine(v) ==
  /\ dflt' = v
  /\ err' = FALSE
  /\ hist' = Append(hist, [t |-> "dflt", v |-> v])
  /\ UNCHANGED <<okeys, mat, pair, cut, dmat, dpair, dcut>>

(* ---- <name> x  and  <name>_squared x*x ------------------------------------- *)
CutLine(x) ==
  /\ cut' = x
  /\ dcut' = <<x, x * x>>
  /\ err' = FALSE
  /\ hist' = Append(hist, [t |-> "cut", x |-> x])
  /\ UNCHANGED <<okeys, mat, pair, dflt, dmat, dpair>>
CutSqLine(x) ==            \* the file gives the square x*x; the descriptor stores its root
  /\ cut' = x
  /\ dcut' = <<x, x * x>>
  /\ err' = FALSE
  /\ hist' = Append(hist, [t |-> "cutsq", x |-> x * x])
  /\ UNCHANGED <<okeys, mat, pair, dflt, dmat, dpair>>

(* ---- look-ups --------------------------------------------------------------- *)
MechMat(a, b)  == mat[<<a, b>>]                                   \* get_value(a, b); None if absent
MechPair(a, b) == IF pair[<<a, b>>] = NoneP THEN dflt ELSE pair[<<a, b>>]
MechCutSq      == cut * cut                                        \* squared_property.__get__
DeclMat(a, b)  == dmat[U(a, b)]
DeclPair(a, b) == IF dpair[U(a, b)] = NoneP THEN dflt ELSE dpair[U(a, b)]

(* ---- properties (the statement) ---------------------------------------------- *)
MatSym       == \A a, b \in Keys : MechMat(a, b) = MechMat(b, a)
PairSym      == \A a, b \in Keys : MechPair(a, b) = MechPair(b, a)
Fallback     == \A a, b \in Keys : dpair[U(a, b)] = NoneP => MechPair(a, b) = dflt
SquareLinked == MechCutSq = cut * cut /\ dcut = <<cut, MechCutSq>>
Refines      == /\ \A a, b \in Keys : MechMat(a, b) = DeclMat(a, b)
                /\ \A a, b \in Keys : MechPair(a, b) = DeclPair(a, b)
(* every key that has a row has an entry towards every other key with a row *)
RowsComplete == \A i, j \in 1..Len(okeys) : MechMat(okeys[i], okeys[j]) # None
=============================================================================
