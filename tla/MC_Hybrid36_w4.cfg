SPECIFICATION Spec
CONSTANTS
  Widths = {4}
  SegLen = 2000
  SegStarts <- NoStarts
  Emit = FALSE
INVARIANT RoundTrip
INVARIANT EncodeAgree
INVARIANT InRangeInv
INVARIANT JudgeAgree
INVARIANT LastIsMax
PROPERTY Monotone
CHECK_DEADLOCK FALSE
