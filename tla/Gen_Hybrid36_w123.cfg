SPECIFICATION Spec
CONSTANTS
  Widths = {1,2,3}
  SegLen = 2000
  SegStarts <- NoStarts
  Emit = TRUE
INVARIANT RoundTrip
INVARIANT EncodeAgree
INVARIANT InRangeInv
INVARIANT JudgeAgree
INVARIANT LastIsMax
INVARIANT EmitInv
PROPERTY Monotone
CHECK_DEADLOCK FALSE
