------------------------------ MODULE Truncation ------------------------------
(***************************************************************************)
(* Incomplete structures (C12).  A residue template is a sequence of atom  *)
(* names; a site is defined by one atom (C01).  Removing a set of atoms    *)
(* must leave exactly the sites whose defining atom remains; nothing else  *)
(* about a site's residue matters for being reported.                      *)
(***************************************************************************)
EXTENDS Integers, Sequences, FiniteSets, TLC

Templates == [
  ASP |-> <<"N", "CA", "C", "O", "CB", "CG", "OD1", "OD2">>,
  GLU |-> <<"N", "CA", "C", "O", "CB", "CG", "CD", "OE1", "OE2">>,
  HIS |-> <<"N", "CA", "C", "O", "CB", "CG", "ND1", "CD2", "CE1", "NE2">>,
  CYS |-> <<"N", "CA", "C", "O", "CB", "SG">>,
  TYR |-> <<"N", "CA", "C", "O", "CB", "CG", "CD1", "CD2", "CE1", "CE2", "CZ", "OH">>,
  LYS |-> <<"N", "CA", "C", "O", "CB", "CG", "CD", "CE", "NZ">>,
  ARG |-> <<"N", "CA", "C", "O", "CB", "CG", "CD", "NE", "CZ", "NH1", "NH2">>,
  SER |-> <<"N", "CA", "C", "O", "CB", "OG">>,
  ASN |-> <<"N", "CA", "C", "O", "CB", "CG", "OD1", "ND2">>,
  TRP |-> <<"N", "CA", "C", "O", "CB", "CG", "CD1", "CD2", "NE1", "CE2", "CE3", "CZ2", "CZ3", "CH2">>,
  GLY |-> <<"N", "CA", "C", "O">>,
  CTERM |-> <<"N", "CA", "C", "O", "CB", "OXT">> ]      \* backbone of a chain's last residue: the C- site sits on OXT
DefAtom == [ASP |-> "CG", GLU |-> "CD", HIS |-> "CG", CYS |-> "SG", TYR |-> "OH", LYS |-> "NZ", ARG |-> "CZ", CTERM |-> "OXT"]

Names(t) == {Templates[t][k] : k \in 1..Len(Templates[t])}
Remaining(t, removed) == Names(t) \ removed
(* the side-chain site of an interior residue survives iff its defining atom does *)
SiteRemains(t, removed) == t \in DOMAIN DefAtom /\ DefAtom[t] \in Remaining(t, removed)
(* lemmas of the declarative face *)
Monotone(t, r1, r2) == (r1 \subseteq r2 /\ SiteRemains(t, r2)) => SiteRemains(t, r1)
OnlyDefiningAtomMatters(t, r) == t \in DOMAIN DefAtom => (SiteRemains(t, r) <=> DefAtom[t] \notin r)
=============================================================================
