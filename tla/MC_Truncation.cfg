SPECIFICATION Spec
CONSTANTS
  MaxAll = 9
  Emit = FALSE
INVARIANT Lemmas
CHECK_DEADLOCK FALSE
