------------------------------ MODULE Iterative ------------------------------
(***************************************************************************)
(* propka/iterative.py : add_determinants (the iterative pKa scheme) with  *)
(* add_iterative_acid_pair / base_pair / ion_pair.  Values in tenths of a  *)
(* pKa unit.  A configuration: charges q[g], non-iterative pKa p0[g], and  *)
(* per interacting pair k = <<i, j>> a hydrogen-bond value hb[k] and a     *)
(* Coulomb value co[k].                                                    *)
(*                                                                         *)
(* Mechanism face: Iter - one pass of the while loop; Run - the loop with  *)
(* its GLOBAL convergence test and cap of 10 iterations.                   *)
(* Declarative face (C05): the determinants of a cluster do not depend on  *)
(* which other, non-interacting clusters are solved together with it.      *)
(***************************************************************************)
EXTENDS Integers, Sequences, FiniteSets, TLC

CONSTANTS G, Pairs        \* groups; sequence of interacting pairs <<i, j>>
NP == Len(Pairs)

(* contributions of pair k in one pass: [d1, d2 : increments, a : new annihilation pair] *)
Acid(q, hb, co, k, po, an) ==
  LET i == Pairs[k][1] j == Pairs[k][2] diff == co[k] + 2*hb[k]
      c1 == po[i] + an[k][1] + diff  c2 == po[j] + an[k][2] + diff
  IN IF c1 > c2 THEN [d1 |-> hb[k] + co[k], d2 |-> -hb[k], a |-> <<-diff, 0>>]
     ELSE [d1 |-> -hb[k], d2 |-> hb[k] + co[k], a |-> <<0, -diff>>]
Base(q, hb, co, k, po, an) ==
  LET i == Pairs[k][1] j == Pairs[k][2] diff == -(co[k] + 2*hb[k])
      c1 == po[i] + an[k][1] + diff  c2 == po[j] + an[k][2] + diff
  IN IF c1 < c2 THEN [d1 |-> -hb[k] - co[k], d2 |-> hb[k], a |-> <<-diff, 0>>]
     ELSE [d1 |-> hb[k], d2 |-> -hb[k] - co[k], a |-> <<0, -diff>>]
Ion(q, hb, co, k, po, an) ==
  LET i == Pairs[k][1] j == Pairs[k][2]
      c1 == po[i] + an[k][1] + q[i]*co[k] + q[i]*hb[k]
      c2 == po[j] + an[k][2] + q[j]*co[k] + q[j]*hb[k]
      add == (q[i] = -1 /\ c1 < c2) \/ (q[i] = 1 /\ c1 > c2)
  IN IF add THEN [d1 |-> q[i]*(co[k]+hb[k]), d2 |-> q[j]*(co[k]+hb[k]),
                  a |-> <<-q[i]*(co[k]+hb[k]), -q[j]*(co[k]+hb[k])>>]
     ELSE [d1 |-> 0, d2 |-> 0, a |-> <<0, 0>>]
One(q, hb, co, k, po, an) ==
  LET i == Pairs[k][1] j == Pairs[k][2] IN
  IF hb[k] + co[k] = 0 THEN [d1 |-> 0, d2 |-> 0, a |-> <<0, 0>>]
  ELSE IF q[i] < 0 /\ q[j] < 0 THEN Acid(q, hb, co, k, po, an)
  ELSE IF q[i] > 0 /\ q[j] > 0 THEN Base(q, hb, co, k, po, an)
  ELSE Ion(q, hb, co, k, po, an)

(* one pass over the pairs in S (a set of pair indices): new pKa values, annihilations, determinants *)
RECURSIVE SumOver(_, _, _)
SumOver(S, r, g) == IF S = {} THEN 0
                    ELSE LET k == CHOOSE x \in S : TRUE IN
                         (IF Pairs[k][1] = g THEN r[k].d1 ELSE IF Pairs[k][2] = g THEN r[k].d2 ELSE 0) + SumOver(S \ {k}, r, g)
Members(S) == UNION {{Pairs[k][1], Pairs[k][2]} : k \in S}
Iter(S, q, p0, hb, co, po, an) ==
  LET r == [k \in 1..NP |-> IF k \in S THEN One(q, hb, co, k, po, an) ELSE [d1 |-> 0, d2 |-> 0, a |-> <<0, 0>>]]
      pn == [g \in G |-> IF g \in Members(S) THEN p0[g] + SumOver(S, r, g) ELSE po[g]]
  IN [pnew |-> pn, ann |-> [k \in 1..NP |-> r[k].a], dets |-> [k \in 1..NP |-> <<r[k].d1, r[k].d2>>],
      conv |-> \A g \in Members(S) : pn[g] = po[g]]
(* the while loop: global convergence over the groups of S, at most 10 passes *)
RECURSIVE Loop(_, _, _, _, _, _, _, _)
Loop(S, q, p0, hb, co, po, an, n) ==
  LET x == Iter(S, q, p0, hb, co, po, an) IN
  IF x.conv \/ n = 10 THEN [dets |-> x.dets, passes |-> n, conv |-> x.conv]
  ELSE Loop(S, q, p0, hb, co, x.pnew, x.ann, n + 1)
Run(S, q, p0, hb, co) == Loop(S, q, p0, hb, co, p0, [k \in 1..NP |-> <<0, 0>>], 1)
(* one more forced pass after convergence changes nothing *)
FixedPoint(S, q, p0, hb, co) ==
  LET RECURSIVE Go(_, _, _)
      Go(po, an, n) == LET x == Iter(S, q, p0, hb, co, po, an) IN
                       IF x.conv THEN Iter(S, q, p0, hb, co, x.pnew, x.ann).dets = x.dets
                       ELSE IF n = 10 THEN TRUE ELSE Go(x.pnew, x.ann, n + 1)
  IN Go(p0, [k \in 1..NP |-> <<0, 0>>], 1)
(* C05: solving cluster S together with a disjoint cluster S2 gives S the determinants it gets alone *)
Independent(S, S2, q, p0, hb, co) ==
  LET joint == Run(S \cup S2, q, p0, hb, co).dets
      alone == Run(S, q, p0, hb, co).dets
  IN \A k \in S : joint[k] = alone[k]
=============================================================================
