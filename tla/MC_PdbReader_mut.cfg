SPECIFICATION Spec
CONSTANTS
  KeyKind = "rid"
  MaxLen = 5
  Chains = {"A"}
  Nums = {1, 2}
  Ics = {" "}
  Names = {"N", "X", "OXT"}
  Alts = {"A", "B"}
  Kinds = {"ATOM"}
  RNames = {"AA", "AB"}
  WithModel = FALSE
  WithOther = FALSE
  Emit = FALSE
  ChainSets <- CS_None
  KeepH = FALSE
INVARIANT Agree
CHECK_DEADLOCK FALSE
