---------------------------- MODULE Trace_HydSet ----------------------------
(* Code -> spec: the complete hydrogen set of one conformation of one run (C17): every hydrogen - supplied with the      *)
(* input and kept, or built by the program - is bonded to exactly one heavy atom, and no two hydrogens coincide           *)
(* (closer than MinSep milli-Angstrom).  R.h[k] = <<x, y, z, bonded heavy atoms, bonded hydrogens>> in milli-Angstrom.   *)
EXTENDS Integers, Sequences, Json, IOUtils
CONSTANTS MinSep
Trace == JsonDeserialize(IOEnv.TRACE_FILE)
VARIABLE i
Init == i \in 1..Len(Trace)
Next == UNCHANGED i
Spec == Init /\ [][Next]_i
R == Trace[i]
Abs(x) == IF x < 0 THEN -x ELSE x
(* squares only of differences below MinSep: no 32-bit overflow *)
Close(a, b) == /\ Abs(a[1] - b[1]) < MinSep /\ Abs(a[2] - b[2]) < MinSep /\ Abs(a[3] - b[3]) < MinSep
               /\ (a[1] - b[1]) * (a[1] - b[1]) + (a[2] - b[2]) * (a[2] - b[2]) + (a[3] - b[3]) * (a[3] - b[3]) < MinSep * MinSep
H_OneParent == \A k \in 1..Len(R.h) : R.h[k][4] = 1
H_NoHH == \A k \in 1..Len(R.h) : R.h[k][5] = 0          \* a hydrogen is never bonded to a hydrogen
H_Separated == \A j, k \in 1..Len(R.h) : j < k => ~Close(R.h[j], R.h[k])
(* with supplied hydrogens kept, nothing is built on top of them: the number of hydrogens is the number supplied *)
H_NoneAdded == R.supplied >= 0 => Len(R.h) = R.supplied
=============================================================================
