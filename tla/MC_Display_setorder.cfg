SPECIFICATION Spec
CONSTANTS
  MaxCb = 2
  MaxSc = 1
  Vals = {1}
  Ordered = FALSE
  Emit = FALSE
INVARIANT Deterministic
INVARIANT CombCount
INVARIANT Conserved
CHECK_DEADLOCK FALSE
