SPECIFICATION Spec
CONSTANTS
  MaxLen = 3
  Models = {1, 2}
  Alts = {" ", "B"}
  Keys <- MC_Keys
  ResNames = {"ASP"}
  AtomNames = {"CA", "CB", "CG"}
  WithIcode = TRUE
  Emit = FALSE
INVARIANT TopUpAgrees
INVARIANT NeverMerges
CHECK_DEADLOCK FALSE
