SPECIFICATION Spec
CONSTANTS
  MaxG = 2
  MaxR = 2
  MaxN = 1
INVARIANT WrittenAccepted
INVARIANT CountersFaithful
INVARIANT DamageNoticed
CHECK_DEADLOCK FALSE
