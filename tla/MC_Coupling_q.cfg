SPECIFICATION Spec
CONSTANTS
  MaxDet = 1
  EqualLabels = TRUE
  Emit = FALSE
INVARIANT SwapInvolution
INVARIANT ProbeNeutral
INVARIANT ThirdUntouched
CHECK_DEADLOCK FALSE
