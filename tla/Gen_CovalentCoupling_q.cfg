SPECIFICATION Spec
CONSTANTS
  MaxBonds = 3
  N = 4
  MaxEdges = 3
  MaxHosts = 3
  Types = {"O.co2", "N.pl3"}
  PkVals = {3, 4}
  Emit = TRUE
INVARIANT EmitInv
CHECK_DEADLOCK FALSE
