------------------------------ MODULE CellList ------------------------------
(***************************************************************************)
(* propka/bonds.py : BondMaker.find_bonds_for_atoms_using_boxes,           *)
(* _find_bonds_for_atoms, check_distance, make_bond.                       *)
(*                                                                         *)
(* Coordinates are integers on a 0.01 Angstrom lattice (centi-Angstrom).   *)
(* Declarative face: AllPairsBonds - the element-dependent distance        *)
(*   criterion applied to every unordered pair of atoms.                   *)
(* Mechanism face: the cell list - atoms are hashed into boxes of edge B   *)
(*   by floor(coord / B); each box is compared with itself and with the    *)
(*   13 "half-space" neighbour offsets.                                    *)
(***************************************************************************)
EXTENDS Integers, Sequences, FiniteSets, TLC

CONSTANTS B,        \* box edge (251 = 2.51 A)
          ThH,      \* X-H threshold (150), applies when exactly one atom is hydrogen
          ThD,      \* default threshold (200), applies when no atom is hydrogen
          ThSS,     \* S-S threshold (250)
          ThFF,     \* F-F threshold (170; subsumed by ThD)
          Offsets   \* the neighbour offsets enumerated by the code, a sequence of <<dx,dy,dz>>

VARIABLES pos,      \* atom id -> <<x, y, z>>
          el,       \* atom id -> "C" | "H" | "S" | "F" | "SE" (any other element: default criterion)
          order,    \* sequence of atom ids as handed to the function
          phase,    \* "insert" | "scan" | "done"
          k,        \* next index into order (insert phase)
          cells,    \* sequence of occupied cells in dictionary (insertion) order
          box,      \* cell -> sequence of atom ids
          ci, oi,   \* scan position: cell index, offset index (0 = within the cell)
          bonds,    \* set of unordered pairs {a, b}
          bridged,  \* atoms flagged cysteine_bridge
          examined  \* unordered pairs handed to the distance check

vars == <<pos, el, order, phase, k, cells, box, ci, oi, bonds, bridged, examined>>

Atoms == DOMAIN pos

(* ---- the distance criterion (check_distance) ---------------------------- *)
SqDist(p, q) == (p[1]-q[1])*(p[1]-q[1]) + (p[2]-q[2])*(p[2]-q[2]) + (p[3]-q[3])*(p[3]-q[3])
HCount(a, b) == (IF el[a] = "H" THEN 1 ELSE 0) + (IF el[b] = "H" THEN 1 ELSE 0)
MaxTh == IF ThSS > ThD THEN (IF ThSS > ThFF THEN ThSS ELSE ThFF) ELSE (IF ThD > ThFF THEN ThD ELSE ThFF)
Criterion(a, b) ==
   LET d2 == SqDist(pos[a], pos[b]) IN
   \/ HCount(a, b) = 1 /\ d2 < ThH * ThH
   \/ HCount(a, b) = 0 /\ d2 < ThD * ThD
   \/ el[a] = "S" /\ el[b] = "S" /\ d2 < ThSS * ThSS
   \/ el[a] = "F" /\ el[b] = "F" /\ d2 < ThFF * ThFF

(* ---- declarative face --------------------------------------------------- *)
AllPairsBonds == {{a, b} : a \in Atoms, b \in Atoms} \cap {p \in SUBSET Atoms : Cardinality(p) = 2 /\
                      \E a, b \in p : a # b /\ Criterion(a, b)}
AllPairsBridged == {a \in Atoms : el[a] = "S" /\ \E b \in Atoms : b # a /\ el[b] = "S" /\ Criterion(a, b)}
(* exact ties with a threshold: excluded from replays against floating-point code *)
KnifeEdge == \E a, b \in Atoms : a # b /\ SqDist(pos[a], pos[b]) \in {ThH*ThH, ThD*ThD, ThSS*ThSS, ThFF*ThFF}

(* ---- mechanism face ----------------------------------------------------- *)
CellOf(p) == << p[1] \div B, p[2] \div B, p[3] \div B >>       \* floor division, also for negatives
Plus(c, o) == << c[1]+o[1], c[2]+o[2], c[3]+o[3] >>
Range(s) == {s[i] : i \in 1..Len(s)}

Insert ==
  /\ phase = "insert" /\ k <= Len(order)
  /\ LET a == order[k] c == CellOf(pos[a]) IN
       IF c \in Range(cells)
       THEN /\ box' = [box EXCEPT ![c] = Append(@, a)] /\ cells' = cells
       ELSE /\ box' = box @@ (c :> <<a>>) /\ cells' = Append(cells, c)
  /\ k' = k + 1
  /\ UNCHANGED <<pos, el, order, phase, ci, oi, bonds, bridged, examined>>
EndInsert ==
  /\ phase = "insert" /\ k > Len(order)
  /\ phase' = "scan" /\ ci' = 1 /\ oi' = 0
  /\ UNCHANGED <<pos, el, order, k, cells, box, bonds, bridged, examined>>

(* _find_bonds_for_atoms on a set of pairs: skip if already bonded, else check and bond *)
Compare(pairs) ==
  LET new == {p \in pairs : p \notin bonds /\ \E a, b \in p : a # b /\ Criterion(a, b)} IN
  /\ bonds' = bonds \cup new
  /\ bridged' = bridged \cup UNION {p : p \in {q \in new : \A a \in q : el[a] = "S"}}
  /\ examined' = examined \cup pairs

Within ==
  /\ phase = "scan" /\ ci <= Len(cells) /\ oi = 0
  /\ LET s == Range(box[cells[ci]]) IN Compare({{a, b} : a \in s, b \in s} \ {{a} : a \in s})
  /\ oi' = 1
  /\ UNCHANGED <<pos, el, order, phase, k, cells, box, ci>>
Across ==
  /\ phase = "scan" /\ ci <= Len(cells) /\ oi \in 1..Len(Offsets)
  /\ LET c == cells[ci] n == Plus(c, Offsets[oi]) IN
       IF n \in Range(cells)
       THEN Compare({{a, b} : a \in Range(box[c]), b \in Range(box[n])})
       ELSE UNCHANGED <<bonds, bridged, examined>>
  /\ IF oi = Len(Offsets) THEN ci' = ci + 1 /\ oi' = 0 ELSE ci' = ci /\ oi' = oi + 1
  /\ UNCHANGED <<pos, el, order, phase, k, cells, box>>
Finish ==
  /\ phase = "scan" /\ ci > Len(cells)
  /\ phase' = "done"
  /\ UNCHANGED <<pos, el, order, k, cells, box, ci, oi, bonds, bridged, examined>>

Next == Insert \/ EndInsert \/ Within \/ Across \/ Finish

(* ---- properties ----------------------------------------------------------- *)
Done == phase = "done"
BondsAreAllPairs == Done => bonds = AllPairsBonds
Irreflexive      == \A p \in bonds : Cardinality(p) = 2
BridgeBoth       == Done => bridged = AllPairsBridged
NeverTwice       == TRUE   \* (pairs may be looked at again; _find_bonds_for_atoms returns early)
(* soundness at every step: nothing is bonded that the criterion does not allow *)
Sound            == bonds \subseteq AllPairsBonds
(* the lemma the cell size rests on: atoms closer than the largest threshold sit in adjacent cells *)
Adjacent(c, d)   == \A i \in 1..3 : c[i] - d[i] \in {-1, 0, 1}
Locality         == \A a, b \in Atoms : SqDist(pos[a], pos[b]) < MaxTh * MaxTh => Adjacent(CellOf(pos[a]), CellOf(pos[b]))
(* the offsets enumerate exactly one of d, -d for each of the 26 neighbour directions *)
Neg(o) == << -o[1], -o[2], -o[3] >>
Dirs == ({-1, 0, 1} \X {-1, 0, 1} \X {-1, 0, 1}) \ {<<0, 0, 0>>}
HalfSpaceCover == /\ \A d \in Dirs : (d \in Range(Offsets)) # (Neg(d) \in Range(Offsets))
                  /\ \A i, j \in 1..Len(Offsets) : i # j => Offsets[i] # Offsets[j]
                  /\ Range(Offsets) \subseteq Dirs
=============================================================================
