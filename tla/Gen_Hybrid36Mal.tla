-------------------------- MODULE Gen_Hybrid36Mal --------------------------
(* Case generator: every glyph string up to MaxLen over a class-representative *)
(* alphabet, with the verdict the declarative face demands (Judge).  Strings   *)
(* grow by appending one glyph per step, so the state space is the set of      *)
(* strings itself.                                                             *)
EXTENDS Hybrid36, Json
CONSTANTS MaxLen, Alphabet
VARIABLE s
Init == s = <<>>
Grow == /\ Len(s) < MaxLen
        /\ \E g \in Alphabet : s' = Append(s, g)
Spec == Init /\ [][Grow]_s
(* sanity of the declarative face itself *)
JudgeTotal == Judge(s).k \in {"value", "reject", "unjudged"}
ValueMeansStandard ==
   Judge(s).k = "value" =>
      LET t == Strip(s) IN /\ InRange(Judge(s).v, Len(t))
                           /\ Encode(Judge(s).v, Len(t)) = t
EmitInv == PrintT(ToJson([f |-> s, k |-> Judge(s).k, v |-> Judge(s).v]))
=============================================================================
