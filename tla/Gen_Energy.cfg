SPECIFICATION Spec
CONSTANTS
  Emit = TRUE
  DStep = 10
INVARIANT EmitInv
CHECK_DEADLOCK FALSE
