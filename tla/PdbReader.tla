------------------------------ MODULE PdbReader ------------------------------
(***************************************************************************)
(* propka/input.py : get_atom_lines_from_pdb (and the conformation names   *)
(* used by read_pdb).                                                      *)
(*                                                                         *)
(* A file is a sequence of abstract records                                *)
(*   [k |-> "TER"] | [k |-> "MODEL", m] | [k |-> "OTHER"]                  *)
(*   [k |-> "ATOM"/"HETATM", ch, num, ic, rn, nm, alt]                     *)
(* rn: residue class "AA" (amino acid) | "AB" (another amino acid: an       *)
(*     alt-loc point mutant shares chain, number and insertion code with   *)
(*     an "AA" copy) | "IGN" (configured as ignorable)                     *)
(* nm: "N" | "X" (any other heavy atom) | "OXT" | "H" (a hydrogen)         *)
(*                                                                         *)
(* Mechanism face: the reader's state (model, nterm, old, terminal) and    *)
(*   its branches, one record per step.  KeyKind selects what the reader   *)
(*   compares to recognise "the same residue": "rid" = chain+number+icode  *)
(*   (the repaired code), "num" = the number string only (pinned tree),    *)
(*   "named" = residue name + chain + number + icode (a plausible change   *)
(*   that splits an alt-loc point mutant into two residues; self-test).    *)
(* Declarative face: DeclOut - from the property statements (C01: which    *)
(*   atoms are termini; C07: what is ignored; C08: conformation names;     *)
(*   C13: chain selection).                                                *)
(***************************************************************************)
EXTENDS Integers, Sequences, FiniteSets, TLC

CONSTANTS KeyKind      \* "rid" | "num" | "named"

NextRes == <<"next", "residue">>     \* sentinels are tuples of lengths no residue key has (keys: 1, 3 or 5)
NoRes   == <<"n", "o", "n", "e">>

IsAtomRec(r) == r.k \in {"ATOM", "HETATM"}
Rid(r) == <<r.ch, r.num, r.ic>>
Key(r) == IF KeyKind = "rid" THEN Rid(r) ELSE IF KeyKind = "named" THEN <<r.rn, r.ch, r.num, r.ic, "named">> ELSE <<r.num>>

(* conformation name: "<model><altloc>", blank -> A, digits -> letters *)
AltName(alt) == CASE alt = " " -> "A" [] alt = "1" -> "A" [] alt = "2" -> "B" [] alt = "3" -> "C" [] OTHER -> alt
ConfName(m, alt) == <<m, AltName(alt)>>

(* ---- mechanism: one record -------------------------------------------------------- *)
(* state st = [model, nterm, old]; returns [st, out] with out = "skip" or [conf, term, rec] *)
Skip == [conf |-> <<0, "-">>, term |-> "skip"]
MechStep(st, r, chains, keepH) ==
  IF r.k = "MODEL" THEN [st |-> [st EXCEPT !.model = r.m, !.nterm = NextRes, !.old = NoRes], out |-> Skip]
  ELSE IF r.k = "TER" THEN [st |-> [st EXCEPT !.nterm = NextRes], out |-> Skip]
  ELSE IF ~IsAtomRec(r) THEN [st |-> st, out |-> Skip]
  ELSE IF r.rn = "IGN" THEN [st |-> st, out |-> Skip]                       \* ignore_residues
  ELSE IF chains # {} /\ r.ch \notin chains THEN [st |-> st, out |-> Skip]   \* chain selection
  ELSE
    LET newres == st.nterm = NextRes /\ r.k = "ATOM" /\ st.old # Key(r)
        nt1 == IF newres THEN Key(r) ELSE st.nterm
        ol1 == IF newres THEN NoRes ELSE st.old
        isN == r.k = "ATOM" /\ r.nm = "N" /\ nt1 = Key(r)
        isC == r.k = "ATOM" /\ r.nm = "OXT"
        term == IF isC THEN "C-" ELSE IF isN THEN "N+" ELSE "-"
        st2 == [model |-> st.model,
                nterm |-> IF isC THEN NextRes ELSE nt1,
                old   |-> IF isC THEN Key(r) ELSE ol1]
    IN [st |-> st2,
        out |-> IF r.nm = "H" /\ ~keepH THEN Skip
                ELSE [conf |-> ConfName(st.model, r.alt), term |-> term]]

RECURSIVE MechRun(_, _, _, _, _)
MechRun(st, s, i, chains, keepH) ==
  IF i > Len(s) THEN <<>>
  ELSE LET x == MechStep(st, s[i], chains, keepH) IN <<x.out>> \o MechRun(x.st, s, i + 1, chains, keepH)
MechOut(s, chains, keepH) == MechRun([model |-> 1, nterm |-> NextRes, old |-> NoRes], s, 1, chains, keepH)

(* ---- declaration ---------------------------------------------------------------------- *)
(* records that take part in the chain structure: ATOM records that are neither ignorable nor deselected *)
Counts(r, chains) == r.k = "ATOM" /\ r.rn # "IGN" /\ (chains = {} \/ r.ch \in chains)
Used(r, chains)   == IsAtomRec(r) /\ r.rn # "IGN" /\ (chains = {} \/ r.ch \in chains)

(* index of the previous counting record, 0 if none *)
PrevCounting(s, i, chains) ==
  LET c == {j \in 1..(i - 1) : Counts(s[j], chains)} IN
  IF c = {} THEN 0 ELSE CHOOSE j \in c : \A q \in c : q <= j
(* first counting record of the residue that record i belongs to (records of one residue are contiguous
   among the counting records) *)
RECURSIVE ResFirst(_, _, _)
ResFirst(s, i, chains) ==
  LET p == PrevCounting(s, i, chains) IN
  IF p = 0 \/ Rid(s[p]) # Rid(s[i]) THEN i
  ELSE IF \E t \in (p + 1)..(i - 1) : s[t].k \in {"TER", "MODEL"} THEN i
  ELSE ResFirst(s, p, chains)
(* does the residue that ends at counting record p carry a terminal oxygen? *)
RECURSIVE ResHasOXT(_, _, _)
ResHasOXT(s, p, chains) ==
  \/ s[p].nm = "OXT"
  \/ LET q == PrevCounting(s, p, chains) IN
       q # 0 /\ Rid(s[q]) = Rid(s[p]) /\ ~(\E t \in (q + 1)..(p - 1) : s[t].k \in {"TER", "MODEL"})
       /\ ResHasOXT(s, q, chains)
(* a residue is a chain start iff it is the first residue of its model, or follows a TER record,
   or follows a residue carrying a terminal oxygen  (C01) *)
ChainStart(s, f, chains) ==
  LET p == PrevCounting(s, f, chains) IN
  \/ p = 0
  \/ \E t \in (p + 1)..(f - 1) : s[t].k \in {"TER", "MODEL"}
  \/ ResHasOXT(s, p, chains)
ModelAt(s, i) ==
  LET ms == {j \in 1..i : s[j].k = "MODEL"} IN
  IF ms = {} THEN 1 ELSE s[CHOOSE j \in ms : \A q \in ms : q <= j].m

DeclOne(s, i, chains, keepH) ==
  LET r == s[i] IN
  IF ~Used(r, chains) THEN Skip
  ELSE IF r.nm = "H" /\ ~keepH THEN Skip
  ELSE [conf |-> ConfName(ModelAt(s, i), r.alt),
        term |-> IF r.k # "ATOM" THEN "-"
                 ELSE IF r.nm = "OXT" THEN "C-"
                 ELSE IF r.nm = "N" /\ ChainStart(s, ResFirst(s, i, chains), chains) THEN "N+"
                 ELSE "-"]
DeclOut(s, chains, keepH) == [i \in 1..Len(s) |-> DeclOne(s, i, chains, keepH)]

(* ---- derived declarative operators ---------------------------------------------------------- *)
(* C13: selecting chains = deleting the ATOM/HETATM records of the other chains *)
Filter(s, chains) == SelectSeq(s, LAMBDA r : ~IsAtomRec(r) \/ r.ch \in chains)
Yielded(out) == SelectSeq(out, LAMBDA o : o.term # "skip")
(* C07: content the reader must not see *)
Ignorable(r) == r.k = "OTHER" \/ (IsAtomRec(r) /\ r.rn = "IGN")
Strip(s) == SelectSeq(s, LAMBDA r : ~Ignorable(r))
=============================================================================
