SPECIFICATION Spec
CONSTANTS
  Coords <- MC_CoordsT
  Trans <- MC_Trans
  Emit = FALSE
INVARIANT SqDistInvariant
INVARIANT BondsInvariant
INVARIANT Rot24Count
INVARIANT Orientation
CHECK_DEADLOCK FALSE
