------------------------------- MODULE Energy -------------------------------
(***************************************************************************)
(* propka/energy.py : hydrogen_bond_energy, coulomb_energy,                *)
(* calculate_pair_weight, check_buried - the distance laws behind every    *)
(* side-chain, backbone and Coulomb determinant.  Distances in centi-A,    *)
(* dpka_max in hundredths, angle factor and weight in tenths; values are   *)
(* exact fractions <<numerator, denominator>> (denominator > 0).           *)
(*                                                                         *)
(* Mechanism face: the code's case splits and clamps.                      *)
(* Declarative face: the clauses of C05 (nothing beyond the interaction    *)
(* range) and C16 (bounded by the configured maximum, zero or positive     *)
(* magnitude) at the level of one interaction, plus monotonicity.          *)
(***************************************************************************)
EXTENDS Integers

Leq(a, b) == a[1] * b[2] <= b[1] * a[2]          \* fractions with positive denominators
Eq(a, b)  == a[1] * b[2] = b[1] * a[2]
Zero == <<0, 1>>

(* hydrogen_bond_energy(dist, dpka_max, [c1, c2], f_angle) -> |dpka_max * value * f_angle|; fractions in 1/1000 pKa *)
HBond(d, dmax, c1, c2, f) ==
   IF d < c1 THEN <<dmax * f, 1>>
   ELSE IF d > c2 THEN Zero
   ELSE <<dmax * f * (c2 - d), c2 - c1>>
HB_Max(dmax, f) == <<dmax * f, 1>>
HB_Zero(d, dmax, c1, c2, f)  == d >= c2 => Eq(HBond(d, dmax, c1, c2, f), Zero)
HB_Full(d, dmax, c1, c2, f)  == d <= c1 => Eq(HBond(d, dmax, c1, c2, f), HB_Max(dmax, f))
HB_Bound(d, dmax, c1, c2, f) == Leq(Zero, HBond(d, dmax, c1, c2, f)) /\ Leq(HBond(d, dmax, c1, c2, f), HB_Max(dmax, f))
HB_Mono(d, dmax, c1, c2, f)  == Leq(HBond(d + 1, dmax, c1, c2, f), HBond(d, dmax, c1, c2, f))

(* coulomb_energy(dist, weight, parameters): 244.12 / (diel * dist) * scale, diel = 160 - 130 * weight,               *)
(* dist clamped from below at cutoff1, scale = (dist - cutoff2) / (cutoff1 - cutoff2) clamped to [0, 1]; weight = w/10. *)
(* Parts: value = 244.12 * 10 * 100 * sn / (g * dd * sd) with g = 1600 - 130 w (ten times the dielectric), dd the       *)
(* clamped distance, sn / sd the clamped scale (TLC's integers are 32 bit: comparisons are made on the parts)           *)
Max(a, b) == IF a > b THEN a ELSE b
CParts(d, w, cc1, cc2) ==
   LET dd == Max(d, cc1)
       sn == cc2 - dd
       sd == cc2 - cc1
   IN [sn |-> IF sn < 0 THEN 0 ELSE IF sn > sd THEN sd ELSE sn, sd |-> sd, dd |-> dd, g |-> 1600 - 130 * w]
Coulomb(d, w, cc1, cc2) == LET p == CParts(d, w, cc1, cc2) IN <<244120 * p.sn, p.g * p.dd * p.sd>>        \* pKa units
CB_Zero(d, w, cc1, cc2)  == d >= cc2 => CParts(d, w, cc1, cc2).sn = 0
CB_Bound(d, w, cc1, cc2) == LET p == CParts(d, w, cc1, cc2) IN            \* 0 <= value <= 244.12 / (30 * cutoff1)
                            p.sn >= 0 /\ p.g > 0 /\ 300 * cc1 * p.sn <= p.g * p.dd * p.sd
CB_Inner(d, w, cc1, cc2) == d <= cc1 => CParts(d, w, cc1, cc2) = CParts(cc1, w, cc1, cc2)
CB_MonoD(d, w, cc1, cc2) == LET p == CParts(d, w, cc1, cc2) q == CParts(d + 1, w, cc1, cc2) IN q.sn * p.dd <= p.sn * q.dd
CB_MonoW(d, w, cc1, cc2) == w < 10 => CParts(d, w + 1, cc1, cc2).g < CParts(d, w, cc1, cc2).g

(* calculate_pair_weight(parameters, nv1, nv2): (nv1 + nv2 - 2 Nmin) / (2 Nmax - 2 Nmin) clamped to [0, 1] *)
PairWeight(nv1, nv2, nmin, nmax) ==
   LET n == nv1 + nv2 - 2 * nmin  dn == 2 * nmax - 2 * nmin IN
   IF n > dn THEN <<1, 1>> ELSE IF n < 0 THEN Zero ELSE <<n, dn>>
PW_Range(nv1, nv2, nmin, nmax) == Leq(Zero, PairWeight(nv1, nv2, nmin, nmax)) /\ Leq(PairWeight(nv1, nv2, nmin, nmax), <<1, 1>>)
PW_Sym(nv1, nv2, nmin, nmax)   == PairWeight(nv1, nv2, nmin, nmax) = PairWeight(nv2, nv1, nmin, nmax)
PW_Mono(nv1, nv2, nmin, nmax)  == Leq(PairWeight(nv1, nv2, nmin, nmax), PairWeight(nv1 + 1, nv2, nmin, nmax))

(* check_buried(nv1, nv2): not buried iff the sum is small and one of them is small *)
Buried(nv1, nv2, comb, sep) == ~((nv1 + nv2 <= comb) /\ (nv1 <= sep \/ nv2 <= sep))
BU_Sym(nv1, nv2, comb, sep)  == Buried(nv1, nv2, comb, sep) = Buried(nv2, nv1, comb, sep)
BU_Mono(nv1, nv2, comb, sep) == Buried(nv1, nv2, comb, sep) => Buried(nv1 + 1, nv2, comb, sep)
=============================================================================
