------------------------------ MODULE Coupling ------------------------------
(***************************************************************************)
(* propka/coupled_groups.py : transfer_determinant, swap_interactions and  *)
(* the probe of is_coupled_protonation_state_probability                   *)
(* (swap -> evaluate -> swap back).                                        *)
(*                                                                         *)
(* A determinant is [lab, v, to]: printed label, value, partner group.     *)
(* transfer_determinant matches by LABEL, relabels, appends to the other   *)
(* list and removes by object identity (modelled by list positions).       *)
(***************************************************************************)
EXTENDS Integers, Sequences, FiniteSets, TLC

Sel(s, l) == SelectSeq(s, LAMBDA d : d.lab = l)
Rem(s, l) == SelectSeq(s, LAMBDA d : d.lab # l)
Relab(s, l) == [i \in 1..Len(s) |-> [s[i] EXCEPT !.lab = l]]

(* transfer_determinant(d1, d2, label1, label2) -> <<d1', d2'>> *)
Transfer(d1, d2, l1, l2) ==
   LET f12 == Sel(d1, l2)                      \* determinants of list 1 labelled with group 2
       f21 == Sel(d2, l1)                      \* determinants of list 2 labelled with group 1 (collected first)
       d2a == d2 \o Relab(f12, l1)             \* relabel, append to list 2
       d1a == Rem(d1, l2)                      \* ... and remove from list 1
       d1b == d1a \o Relab(f21, l2)            \* the objects collected from list 2: relabel, append to list 1
       \* ... and remove those objects from list 2: they sit among its first Len(d2) positions
       d2b == Rem(SubSeq(d2a, 1, Len(d2)), l1) \o SubSeq(d2a, Len(d2) + 1, Len(d2a))
   IN <<d1b, d2b>>

(* swap_interactions([g1], [g2]): coulomb and side-chain lists *)
Swap(det, lab, g1, g2) ==
   LET c == Transfer(det[g1].cb, det[g2].cb, lab[g1], lab[g2])
       s == Transfer(det[g1].sc, det[g2].sc, lab[g1], lab[g2])
   IN [det EXCEPT ![g1] = [cb |-> c[1], sc |-> s[1]], ![g2] = [cb |-> c[2], sc |-> s[2]]]

(* (label, value) multiset of a list *)
Proj(s) == [i \in 1..Len(s) |-> <<s[i].lab, s[i].v>>]
Count(s, x) == Cardinality({i \in 1..Len(s) : s[i] = x})
SameBag(a, b) == Len(a) = Len(b) /\ \A i \in 1..Len(a) : Count(Proj(a), Proj(a)[i]) = Count(Proj(b), Proj(a)[i])
RECURSIVE SumV(_)
SumV(s) == IF s = <<>> THEN 0 ELSE s[1].v + SumV(Tail(s))
=============================================================================
