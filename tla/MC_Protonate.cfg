SPECIFICATION Spec
CONSTANTS
  Emit = FALSE
INVARIANT CountAgrees
INVARIANT NeverNegative
INVARIANT Complements
CHECK_DEADLOCK FALSE
