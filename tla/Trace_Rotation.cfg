SPECIFICATION Spec
INVARIANT QAxial
INVARIANT QLength
INVARIANT QCos
INVARIANT QHand
CHECK_DEADLOCK FALSE
