SPECIFICATION Spec
CONSTANTS
  ConfSeqs <- MC_ConfSeqs
  NaVals = {1, 2}
  NgVals = {0, 1}
INVARIANT I_AverageAfterAll
INVARIANT I_OneInside
INVARIANT I_Barrier
INVARIANT I_Groups
INVARIANT I_Sorted
INVARIANT NoStuck
PROPERTY Frozen
CHECK_DEADLOCK FALSE
