SPECIFICATION Spec
CONSTANTS
  Coords <- MC_Coords
  Trans <- MC_Trans
  Emit = FALSE
INVARIANT SqDistInvariant
INVARIANT BondsInvariant
INVARIANT Rot24Count
INVARIANT Orientation
CHECK_DEADLOCK FALSE
