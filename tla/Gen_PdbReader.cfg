SPECIFICATION Spec
CONSTANTS
  KeyKind = "rid"
  MaxLen = 3
  Chains = {"A", "B"}
  Nums = {1, 2}
  Ics = {" "}
  Names = {"N", "X", "OXT", "H"}
  Alts = {" ", "B"}
  Kinds = {"ATOM", "HETATM"}
  RNames = {"AA", "IGN"}
  WithModel = TRUE
  WithOther = TRUE
  Emit = TRUE
  ChainSets <- CS_AB
  KeepH = FALSE
INVARIANT EmitInv
CHECK_DEADLOCK FALSE
