---------------------------- MODULE MC_Rotation ----------------------------
(* All (angle, axis, vector) triples of the rational family with small        *)
(* components.  One state per triple.                                         *)
EXTENDS Rotation, FiniteSets, Json
CONSTANTS AxMax,      \* axis components in -AxMax..AxMax
          VMax,       \* vector components in -VMax..VMax
          FlipNegZ,   \* TRUE: mechanism with the -z alignment branch (repaired code)
          Emit
VARIABLES ang, axis, vec
vars == <<ang, axis, vec>>

R == -AxMax..AxMax
Axes == {n \in R \X R \X R : n # <<0,0,0>>}
Vecs == (-VMax..VMax) \X (-VMax..VMax) \X (-VMax..VMax)

(* candidate angles: cos = cn/cd from the list; sin/|n| = +-sqrt(k N)/(cd N) with k = cd^2 - cn^2,
   rational iff k N is a perfect square *)
Cosines == { <<0,1>>, <<1,1>>, <<-1,1>>, <<1,2>>, <<-1,2>>, <<3,5>>, <<-3,5>>, <<4,5>>, <<-4,5>>,
             <<5,13>>, <<-12,13>> }
SmallSqrt(k) == IF \E r \in 0..400 : r * r = k THEN CHOOSE r \in 0..400 : r * r = k ELSE -1
AnglesFor(n) ==
  UNION { LET k == c[2]*c[2] - c[1]*c[1]
              q == SmallSqrt(k * Sq(n)) IN
          IF k = 0 THEN {[cn |-> c[1], cd |-> c[2], sn |-> 0, sd |-> 1]}
          ELSE IF q < 0 THEN {}
          ELSE LET g == GCD(q, c[2] * Sq(n)) IN
               {[cn |-> c[1], cd |-> c[2], sn |-> q \div g, sd |-> (c[2] * Sq(n)) \div g],
                [cn |-> c[1], cd |-> c[2], sn |-> -(q \div g), sd |-> (c[2] * Sq(n)) \div g]} : c \in Cosines }

None == [cn |-> 0, cd |-> 0, sn |-> 0, sd |-> 0]
VARIABLE stage
allvars == <<ang, axis, vec, stage>>
Init == /\ axis \in Axes /\ ang = None /\ vec = <<0,0,0>> /\ stage = 0
PickAngle == stage = 0 /\ ang' \in AnglesFor(axis) /\ stage' = 1 /\ UNCHANGED <<axis, vec>>
PickVec   == stage = 1 /\ vec' \in Vecs /\ stage' = 2 /\ UNCHANGED <<axis, ang>>
Next == PickAngle \/ PickVec
Spec == Init /\ [][Next]_allvars
Ready == stage = 2

(* ---- the declarative closed form satisfies the statement's three clauses --- *)
AngleConsistent == stage >= 1 => AngleOK(ang, axis)
DeclRightHanded == Ready => RightHanded(Rodrigues(ang, axis, vec), Den(ang, axis), ang, axis, vec)
(* ---- the code-shaped mechanism agrees with it on the family where it is exact *)
MechAgrees ==
   Ready /\ MechFamily(axis) =>
      LET r == Mech(ang, axis, vec, FlipNegZ) d == MechDen(ang, axis, FlipNegZ) IN
      Reduce(r, d) = Reduce(Rodrigues(ang, axis, vec), Den(ang, axis))
MechAligned == Ready /\ MechFamily(axis) => Aligned(axis, FlipNegZ)
Branch == IF MechFamily(axis) THEN <<ZBranch(axis), YBranch(axis, FlipNegZ)>> ELSE <<"-", "-">>
EmitInv == Emit /\ Ready => PrintT(ToJson([a |-> ang, n |-> axis, v |-> vec,
                                  r |-> Rodrigues(ang, axis, vec), d |-> Den(ang, axis),
                                  b |-> Branch]))
=============================================================================
