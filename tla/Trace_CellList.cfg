SPECIFICATION Spec
CONSTANTS
  B = 251
  ThH = 150
  ThD = 200
  ThSS = 250
  ThFF = 170
INVARIANT BondsMatch
INVARIANT BridgesMatch
INVARIANT Symmetric
INVARIANT Coverage
INVARIANT EventsLocal
CHECK_DEADLOCK FALSE
