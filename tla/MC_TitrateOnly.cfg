SPECIFICATION Spec
CONSTANTS
  Emit = FALSE
INVARIANT ParserAgrees
INVARIANT FilterLaws
CHECK_DEADLOCK FALSE
