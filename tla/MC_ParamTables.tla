--------------------------- MODULE MC_ParamTables ---------------------------
EXTENDS ParamTables, Json
CONSTANTS MaxLines, Emit
MC_PVals == {<<1, 2>>, <<2, 3>>}
SeqsOfLen(S, n) == [1..n -> S]
Rows == UNION {SeqsOfLen(Syms, n) : n \in 1..(MaxKeys + 1)}
Next == /\ Len(hist) < MaxLines
        /\ \/ \E k \in Keys, vals \in Rows : (Len(vals) \in {Len(okeys), Len(okeys) + 1, Len(okeys) + 2}) /\ MatRow(k, vals)
           \/ \E a, b \in Keys, v \in PVals : PairLine(a, b, v)
           \/ \E v \in PVals : DefaultLine(v)
           \/ \E x \in CutVals : CutLine(x)
           \/ \E x \in CutVals : CutSqLine(x)
Spec == Init /\ [][Next]_vars
View == <<okeys, mat, pair, dflt, cut, dmat, dpair, dcut, err>>
Table(f(_, _)) == [a \in Keys |-> [b \in Keys |-> f(a, b)]]
(* edge witnesses: every (state, line) transition is emitted with the tables AFTER the line, so that hidden
   implementation state (caches) that the abstract state does not distinguish is still driven through every
   line-after-state combination *)
TableP(f(_, _)) == [a \in Keys |-> [b \in Keys |-> f(a, b)]]
DeclMatP(a, b) == dmat'[U(a, b)]
DeclPairP(a, b) == IF dpair'[U(a, b)] = NoneP THEN dflt' ELSE dpair'[U(a, b)]
EmitStep == PrintT(ToJson([h |-> hist', err |-> err', mat |-> TableP(DeclMatP), pair |-> TableP(DeclPairP),
                           dflt |-> dflt', cut |-> dcut']))
EdgeSpec == Init /\ [][Next /\ EmitStep]_vars
EmitInv == Emit => PrintT(ToJson([h |-> hist, err |-> err,
                                  mat |-> Table(DeclMat), pair |-> Table(DeclPair),
                                  dflt |-> dflt, cut |-> dcut]))
=============================================================================
