SPECIFICATION Spec
CONSTANTS
  MaxAll = 9
  Emit = TRUE
INVARIANT EmitInv
CHECK_DEADLOCK FALSE
