---------------------------- MODULE MC_Hybrid36 ----------------------------
(* Exhaustive odometer walk, segmented: Init picks (width, segment start);     *)
(* every state carries the padded field and the integer it must denote.        *)
(* Invariants: decode value = counter (round trip), Encode(counter) = field,   *)
(* and (action property) strict monotonicity along the encoding order.         *)
EXTENDS Hybrid36, Json
CONSTANTS Widths,      \* set of widths walked
          SegLen,      \* steps per segment
          SegStarts,   \* function width -> set of start values (or {} = all multiples of SegLen)
          Emit         \* TRUE: print every (field, n) as JSON for replay into the code

VARIABLES w, field, n, left
vars == <<w, field, n, left>>

NoStarts == [wd \in 1..5 |-> {}]
(* segment starts that straddle every block boundary and representative carries *)
BoundaryStarts ==
  [wd \in 1..5 |->
     {x \in { DecMin(wd), -20, DecMax(wd) - 20,
              UpperLo(wd) + 36 - 20, UpperLo(wd) + Pow(36, wd - 1) - 20,
              UpperLo(wd) + 10 * Pow(36, wd - 1) - 20,
              UpperHi(wd) - 20, LowerLo(wd) + 36 * 36 - 20,
              LowerLo(wd) + 17 * Pow(36, wd - 1) - 20,
              LowerHi(wd) - 40 } : InRange(x, wd)}]

Starts(wd) == IF SegStarts[wd] # {} THEN SegStarts[wd]
              ELSE {DecMin(wd) + k * SegLen : k \in 0..((LowerHi(wd) - DecMin(wd)) \div SegLen)}

Init == /\ w \in Widths
        /\ n \in Starts(w)
        /\ InRange(n, w)
        /\ field = Pad(Encode(n, w), w)
        /\ left = SegLen

Step == /\ left > 0
        /\ ~IsLast(field, w)
        /\ field' = Succ(field, w)
        /\ n' = n + 1
        /\ left' = left - 1
        /\ w' = w

Spec == Init /\ [][Step]_vars

Body(p) == SelectSeq(p, LAMBDA g : g # Space)

RoundTrip   == Hy36Value(Body(field)) = n
EncodeAgree == Body(field) = Encode(n, w)
InRangeInv  == InRange(n, w)
JudgeAgree  == Judge(field) = Val(n) /\ Judge(Body(field)) = Val(n)
LastIsMax   == IsLast(field, w) => n = LowerHi(w)
Monotone    == [][Hy36Value(Body(field')) > Hy36Value(Body(field))]_vars
EmitInv     == Emit => PrintT(ToJson([f |-> field, n |-> n, w |-> w]))
=============================================================================
