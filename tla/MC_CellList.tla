---------------------------- MODULE MC_CellList ----------------------------
(* Two atoms (optionally a third) at representative offsets in a base cell and  *)
(* at displacements that straddle every threshold and every cell boundary in    *)
(* all 26 directions; both list orders; the stepwise cell-list mechanism is run *)
(* to completion on each.                                                       *)
EXTENDS CellList, Json
CONSTANTS BaseOff,    \* offsets of atom 1 inside its cell, per axis
          BaseCells,  \* cell index of atom 1 per axis (e.g. {0, -1})
          Disp,       \* displacement components of atom 2 relative to atom 1
          ElPairs,    \* set of <<el1, el2>>
          Third,      \* TRUE: add a third atom (sulfur) at a fixed small displacement from atom 2
          Emit
CodeOffsets == << <<-1,-1,-1>>, <<-1,-1,0>>, <<-1,-1,1>>, <<-1,0,-1>>, <<-1,0,0>>, <<-1,0,1>>,
                  <<-1,1,-1>>, <<-1,1,0>>, <<-1,1,1>>, <<0,-1,-1>>, <<0,-1,0>>, <<0,-1,1>>, <<0,0,-1>> >>
MissingOne  == SubSeq(CodeOffsets, 1, 12)            \* a defective list, for the self-test
MC_BaseCells == {0, -1}
MC_BaseCellsQ == {-1}
Sym(S) == S \cup {-x : x \in S}
MC_DispQ == Sym({0, 1, 149, 199, 249, 251})
MC_DispT == Sym({0, 1, 125, 149, 151, 169, 171, 199, 201, 249, 251, 252})
(* "SE": a two-letter element without an entry of its own in the distance table (default criterion, in either order) *)
MC_ElPairs  == { <<"C","C">>, <<"C","H">>, <<"H","H">>, <<"S","S">>, <<"F","F">>, <<"C","S">>, <<"S","SE">>, <<"SE","S">>,
                 <<"SE","SE">>, <<"H","SE">>, <<"F","S">>, <<"C","I">>, <<"I","C">>, <<"I","I">>, <<"C","F">> }
MC_ElPairsQ == { <<"C","C">>, <<"C","H">>, <<"S","S">>, <<"S","SE">> }
MC_ElPairsQ2 == { <<"C","C">>, <<"C","H">>, <<"S","S">>, <<"C","I">> }      \* the quick tier alternates between the two

P1 == {<<c1 * B + o1, c2 * B + o2, c3 * B + o3>> : c1 \in BaseCells, c2 \in BaseCells, c3 \in BaseCells,
                                                     o1 \in BaseOff, o2 \in BaseOff, o3 \in BaseOff}
D2 == Disp \X Disp \X Disp

Init ==
  /\ \E p1 \in P1, d \in D2, e \in ElPairs, swap \in BOOLEAN :
        LET p2 == <<p1[1]+d[1], p1[2]+d[2], p1[3]+d[3]>>
            p3 == <<p2[1]+120, p2[2]+120, p2[3]-100>> IN
        \* d = <<0,0,0>> is included: two distinct atoms on one position (a repeated record, superposed copies)
        /\ pos = IF Third THEN (1 :> p1 @@ 2 :> p2 @@ 3 :> p3) ELSE (1 :> p1 @@ 2 :> p2)
        /\ el  = IF Third THEN (1 :> e[1] @@ 2 :> e[2] @@ 3 :> "S") ELSE (1 :> e[1] @@ 2 :> e[2])
        /\ order = IF Third THEN (IF swap THEN <<3, 2, 1>> ELSE <<1, 3, 2>>)
                   ELSE (IF swap THEN <<2, 1>> ELSE <<1, 2>>)
  /\ phase = "insert" /\ k = 1 /\ cells = <<>> /\ box = <<>> /\ ci = 0 /\ oi = 0
  /\ bonds = {} /\ bridged = {} /\ examined = {}
Spec == Init /\ [][Next]_vars
OffsetsOK == HalfSpaceCover
InitOnly == phase = "insert" /\ k = 1
EmitInv == (Emit /\ phase = "insert" /\ k = 1 /\ ~KnifeEdge) =>
              PrintT(ToJson([pos |-> pos, el |-> el, order |-> order,
                             bonds |-> AllPairsBonds, bridged |-> AllPairsBridged]))
(* exact ties: placements with a pair exactly on a threshold (the criterion is a strict "closer than"); only placements
   whose coordinates are multiples of 0.5 A are emitted for replay, so that the tie is exact in binary floating point *)
MC_DispTies == Sym({0, 150, 200, 250})
EmitTies == (Emit /\ phase = "insert" /\ k = 1 /\ KnifeEdge) =>
              PrintT(ToJson([pos |-> pos, el |-> el, order |-> order,
                             bonds |-> AllPairsBonds, bridged |-> AllPairsBridged]))
=============================================================================
