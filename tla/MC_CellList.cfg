SPECIFICATION Spec
CONSTANTS
  B = 251
  ThH = 150
  ThD = 200
  ThSS = 250
  ThFF = 170
  Offsets <- CodeOffsets
  BaseOff = {0, 250}
  BaseCells <- MC_BaseCellsQ
  Disp <- MC_DispQ
  ElPairs <- MC_ElPairsQ
  Third = FALSE
  Emit = FALSE
INVARIANT BondsAreAllPairs
INVARIANT Irreflexive
INVARIANT BridgeBoth
INVARIANT Sound
INVARIANT Locality
INVARIANT OffsetsOK
CHECK_DEADLOCK FALSE
