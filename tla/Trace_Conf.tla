------------------------------ MODULE Trace_Conf ------------------------------
(* Code -> spec for multi-conformation inputs (C08).  One record per real run:      *)
(*   inp   : the input atoms [m, alt, key, resn, nm] as read by the independent reader *)
(*   confs : conformation names in the order the program uses, as <<model, letter>>   *)
(*   atoms : name -> heavy atoms of the conformation after completion, <<key, nm, resn>> *)
(*   grp   : name -> reported groups [rk, pka6, ev6, el6, nv, dl (labels), dv (values)]  *)
(*   avr   : the same records for the average                                          *)
EXTENDS Conformations, Json, IOUtils
Trace == JsonDeserialize(IOEnv.TRACE_FILE)
VARIABLE i
Init == i \in 1..Len(Trace)
Next == UNCHANGED i
Spec == Init /\ [][Next]_i
R == Trace[i]
Inp == [k \in 1..Len(R.inp) |-> [m |-> R.inp[k].m, alt |-> R.inp[k].alt,
                                 key |-> <<R.inp[k].key[1], R.inp[k].key[2], R.inp[k].key[3]>>,
                                 resn |-> R.inp[k].resn, nm |-> R.inp[k].nm]]
ObsConfs == [k \in 1..Len(R.confs) |-> <<R.confs[k][1], R.confs[k][2]>>]
CName(c) == R.cname[CHOOSE k \in 1..Len(R.confs) : ObsConfs[k] = c]
ObsAtoms(c) == {<< <<x[1][1], x[1][2], x[1][3]>>, x[2], x[3] >> : x \in {R.atoms[CName(c)][k] : k \in 1..Len(R.atoms[CName(c)])}}
(* names and order *)
Names == ObsConfs = SortConfs(Confs(Inp))
(* completion *)
NeverMerged == \A k \in 1..Len(ObsConfs) : NeverMerge(ObsAtoms(ObsConfs[k]))
CompletedOK == \A k \in 1..Len(ObsConfs) : Completed(Inp, ObsConfs[k], ObsAtoms(ObsConfs[k]))
(* averaging *)
GroupsOf(cn) == R.grp[cn]
Find(cn, rk) == {j \in 1..Len(GroupsOf(cn)) : GroupsOf(cn)[j].rk = rk}
Val(cn, rk, f(_)) == IF Find(cn, rk) = {} THEN <<FALSE, 0>> ELSE <<TRUE, f(GroupsOf(cn)[CHOOSE j \in Find(cn, rk) : TRUE])>>
Pk(g) == g.pka6
Ev(g) == g.ev6
El(g) == g.el6
DetOf(g, lab) == IF \E n \in 1..Len(g.dl) : g.dl[n] = lab THEN g.dv[CHOOSE n \in 1..Len(g.dl) : g.dl[n] = lab] ELSE 0
Series(rk, f(_)) == [k \in 1..Len(R.cname) |-> Val(R.cname[k], rk, f)]
MeanOK == \A a \in 1..Len(R.avr) :
            LET g == R.avr[a] IN
            /\ MeanOverContaining(Series(g.rk, Pk), g.pka6, R.eps)
            /\ MeanOverContaining(Series(g.rk, Ev), g.ev6, R.eps)
            /\ MeanOverContaining(Series(g.rk, El), g.el6, R.eps)
            /\ \A n \in 1..Len(g.dl) :
                  MeanOverContaining([k \in 1..Len(R.cname) |->
                        LET v == Val(R.cname[k], g.rk, Pk) IN
                        IF v[1] THEN <<TRUE, DetOf(GroupsOf(R.cname[k])[CHOOSE j \in Find(R.cname[k], g.rk) : TRUE], g.dl[n])>>
                        ELSE <<FALSE, 0>>], g.dv[n], R.eps)
(* a single-conformation input reports exactly its only conformation, identical models change nothing: when all
   conformations that contain a group list the same determinants (label and value, as multisets - the lists arrive
   sorted), the average lists exactly those *)
ListNear(x, y) == Len(x) = Len(y) /\ \A n \in 1..Len(x) : n <= Len(y) => x[n][1] = y[n][1] /\ x[n][2] - y[n][2] <= R.eps /\ y[n][2] - x[n][2] <= R.eps
AgreeingAverageToThemselves ==
   \A a \in 1..Len(R.avr) :
      LET g == R.avr[a]
          holders == {k \in 1..Len(R.cname) : Find(R.cname[k], g.rk) # {}}
          listOf(k) == GroupsOf(R.cname[k])[CHOOSE j \in Find(R.cname[k], g.rk) : TRUE].full
      IN (holders # {} /\ \A k1, k2 \in holders : ListNear(listOf(k1), listOf(k2))) =>
            \A k \in holders : ListNear(g.full, listOf(k))
(* within one model, conformations that hold the same atoms (names, residue type) at a residue position report the same
   groups there: what is ionizable at a position depends on the residue's atoms and on its place in the chain only *)
KeyOf(g) == <<g.rk[1], g.rk[2], g.rk[3]>>
ResAtomsAt(c, key) == {<<x[2], x[3]>> : x \in {y \in ObsAtoms(c) : y[1] = key}}
GroupTypesAt(cn, key) == {<<GroupsOf(cn)[j].rk[4], GroupsOf(cn)[j].rk[5], GroupsOf(cn)[j].rk[6]>> :
                             j \in {q \in 1..Len(GroupsOf(cn)) : KeyOf(GroupsOf(cn)[q]) = key}}
SameResidueSameGroups ==
   \A k1, k2 \in 1..Len(ObsConfs) :
      (k1 < k2 /\ ObsConfs[k1][1] = ObsConfs[k2][1]) =>
         \A key \in {y[1] : y \in ObsAtoms(ObsConfs[k1])} :
            (ResAtomsAt(ObsConfs[k1], key) = ResAtomsAt(ObsConfs[k2], key)) =>
               GroupTypesAt(CName(ObsConfs[k1]), key) = GroupTypesAt(CName(ObsConfs[k2]), key)
(* every group reported in some conformation is in the average, and exists in the average once *)
ReportedUnion == \A k \in 1..Len(R.cname) : \A j \in 1..Len(GroupsOf(R.cname[k])) :
                    \E a \in 1..Len(R.avr) : R.avr[a].rk = GroupsOf(R.cname[k])[j].rk
AvrOnce == \A a, b \in 1..Len(R.avr) : a # b => R.avr[a].rk # R.avr[b].rk
AvrOnlyReported == \A a \in 1..Len(R.avr) : \E k \in 1..Len(R.cname) : Find(R.cname[k], R.avr[a].rk) # {}
=============================================================================
