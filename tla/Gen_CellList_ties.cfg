SPECIFICATION Spec
CONSTANTS
  B = 251
  ThH = 150
  ThD = 200
  ThSS = 250
  ThFF = 170
  Offsets <- CodeOffsets
  BaseOff = {0, 50}
  BaseCells = {0}
  Disp <- MC_DispTies
  ElPairs <- MC_ElPairs
  Third = FALSE
  Emit = TRUE
INVARIANT BondsAreAllPairs
INVARIANT Irreflexive
INVARIANT BridgeBoth
INVARIANT Sound
INVARIANT Locality
INVARIANT EmitTies
CONSTRAINT InitOnly
CHECK_DEADLOCK FALSE
