SPECIFICATION Spec
CONSTANTS
  KeyKind = "rid"
  MaxLen = 4
  Chains = {"A"}
  Nums = {1, 2}
  Ics = {" "}
  Names = {"N", "X", "OXT"}
  Alts = {"A", "B"}
  Kinds = {"ATOM"}
  RNames = {"AA", "AB"}
  WithModel = FALSE
  WithOther = FALSE
  Emit = TRUE
  ChainSets <- CS_None
  KeepH = FALSE
INVARIANT EmitInv
CHECK_DEADLOCK FALSE
