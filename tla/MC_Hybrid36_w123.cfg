SPECIFICATION Spec
CONSTANTS
  Widths = {1,2,3}
  SegLen = 2000
  SegStarts <- NoStarts
  Emit = FALSE
INVARIANT RoundTrip
INVARIANT EncodeAgree
INVARIANT InRangeInv
INVARIANT JudgeAgree
INVARIANT LastIsMax
PROPERTY Monotone
CHECK_DEADLOCK FALSE
