SPECIFICATION Spec
CONSTANTS
  Contents = {"a", "u", "m", "c"}
  Unknown = {"u"}
  Options = {"default", "d", "i", "c"}
  MaxRuns = 3
  HazardValence = FALSE
  HazardNCCG = FALSE
  HazardParams = FALSE
INVARIANT EmitInv
CHECK_DEADLOCK FALSE
