------------------------------ MODULE Identity ------------------------------
(***************************************************************************)
(* Residue identity versus residue labels (C06).                           *)
(* A structure is a sequence of residues in file order; residue k carries  *)
(* the label <<chain, number, insertion code>>.  The statement's           *)
(* relabellings: renaming chains, shifting the numbers of a chain by a     *)
(* constant, renumbering in file order (insertion codes dropped) and its   *)
(* inverse (giving consecutive residues one number and insertion codes).   *)
(*                                                                         *)
(* Keys the implementation derives from labels (mechanism face):           *)
(*   "full"      <<chain, num, icode>>   reader terminus match (repaired), titrate-only list          *)
(*   "numchain"  <<chain, num>>          same-residue test of the desolvation sum, Atom.residue_label *)
(*   "label"     <<chain, num>> + type   Group.__eq__ (printed label)                                  *)
(* KeyFaithful(k): distinct residues never share key k.  Only "full" is    *)
(* faithful for every valid labelling; the others fail exactly on twins.   *)
(***************************************************************************)
EXTENDS Integers, Sequences, FiniteSets, TLC

Valid(lab) == \A i, j \in 1..Len(lab) : i # j => lab[i] # lab[j]
KeyOf(kind, l) == IF kind = "full" THEN l ELSE <<l[1], l[2]>>
KeyFaithful(kind, lab) == \A i, j \in 1..Len(lab) : i # j => KeyOf(kind, lab[i]) # KeyOf(kind, lab[j])
HasTwins(lab) == \E i, j \in 1..Len(lab) : i # j /\ lab[i][1] = lab[j][1] /\ lab[i][2] = lab[j][2]

(* ---- the relabellings of the statement ------------------------------------ *)
RenameChains(lab, f) == [k \in 1..Len(lab) |-> <<f[lab[k][1]], lab[k][2], lab[k][3]>>]
Shift(lab, ch, d)    == [k \in 1..Len(lab) |-> IF lab[k][1] = ch THEN <<ch, lab[k][2] + d, lab[k][3]>> ELSE lab[k]]
(* number of residues of the same chain at or before k *)
Ordinal(lab, k) == Cardinality({j \in 1..k : lab[j][1] = lab[k][1]})
Sequential(lab, start) == [k \in 1..Len(lab) |-> <<lab[k][1], start + Ordinal(lab, k) - 1, " ">>]
(* twins: residues p and p+1 (same chain) get the number of residue p, the second one insertion code "A" *)
MakeTwins(lab, p) == [k \in 1..Len(lab) |-> IF k = p + 1 THEN <<lab[p][1], lab[p][2], "A">> ELSE lab[k]]
(* a lone insertion code: residue p keeps its (unique) number and gets insertion code "A" - renumbering in file order
   takes this labelling back to one without codes *)
AddCode(lab, p) == [k \in 1..Len(lab) |-> IF k = p THEN <<lab[p][1], lab[p][2], "A">> ELSE lab[k]]
=============================================================================
