----------------------------- MODULE MC_Display -----------------------------
(***************************************************************************)
(* propka/coupled_groups.py : print_out_swaps / print_system - what the    *)
(* option -d (--display-coupled-residues) does to a coupled system:        *)
(*   system       the members as a LIST                                    *)
(*   interactions itertools.combinations(system, 2)                        *)
(*   probe        every interaction is probed (swap, evaluate, swap back)  *)
(*   combinations lib.generate_combinations(interactions): every non-empty *)
(*                subset, in the order make_combination builds them        *)
(*   swaps        applied one combination after the other, CUMULATIVELY    *)
(* The determinant lists that result are what the _alt_state.pka file      *)
(* shows.  The system is a set of identity-hashed groups: before the       *)
(* repair F12 its list was list(set) - any order (SetOrder); since then    *)
(* the members are taken in the order of the conformation's group list.    *)
(*                                                                         *)
(* Declarative face (C03): the result does not depend on the order in      *)
(* which the set happens to iterate.                                       *)
(***************************************************************************)
EXTENDS Coupling, Json, SequencesExt
CONSTANTS MaxCb, MaxSc, Vals, Ordered, Emit
VARIABLES lab, det, setorder, step
vars == <<lab, det, setorder, step>>
G == 1..3
Names == <<"L1", "L2", "L3">>
Dets == [lab : {Names[g] : g \in G}, v : Vals, to : G]
SeqsUpTo(S, n) == UNION {[1..k -> S] : k \in 0..n}
DetsFor(g) == {d \in Dets : d.to # g /\ d.lab = Names[d.to]}
Empty == [cb |-> <<>>, sc |-> <<>>]
Perms == {p \in [1..3 -> G] : \A a, b \in 1..3 : a # b => p[a] # p[b]}
Canonical == <<1, 2, 3>>

(* ---- mechanism face ------------------------------------------------------ *)
Pairs(o) == << <<o[1], o[2]>>, <<o[1], o[3]>>, <<o[2], o[3]>> >>          \* itertools.combinations(o, 2)
MakeComb(res, x) == FlattenSeq([k \in 1..Len(res) |-> << Append(res[k], x), res[k] >>])
GenComb(inter) == SelectSeq(FoldLeft(MakeComb, << <<>> >>, inter), LAMBDA c : c # <<>>)
SwapOne(d, x) == Swap(d, lab, x[1], x[2])
Probe(d, x) == SwapOne(SwapOne(d, x), x)
ApplyComb(d, c) == FoldLeft(SwapOne, d, c)
Display(d, o) == LET inter == Pairs(o) IN FoldLeft(ApplyComb, FoldLeft(Probe, d, inter), GenComb(inter))
(* the list handed to print_system *)
SortByGroupList(o) == Canonical
MechOrder(o) == IF Ordered THEN SortByGroupList(o) ELSE o

(* ---- behaviour ----------------------------------------------------------- *)
Init == /\ lab = [g \in G |-> Names[g]]
        /\ setorder \in Perms
        /\ \E c1 \in SeqsUpTo(DetsFor(1), MaxCb), s1 \in SeqsUpTo(DetsFor(1), MaxSc) :
              det = [g \in G |-> IF g = 1 THEN [cb |-> c1, sc |-> s1] ELSE Empty]
        /\ step = 0
Build == /\ step = 0 /\ step' = 1
         /\ \E c2 \in SeqsUpTo(DetsFor(2), MaxCb), s2 \in SeqsUpTo(DetsFor(2), MaxSc),
               c3 \in SeqsUpTo(DetsFor(3), MaxCb), s3 \in SeqsUpTo(DetsFor(3), MaxSc) :
               det' = [det EXCEPT ![2] = [cb |-> c2, sc |-> s2], ![3] = [cb |-> c3, sc |-> s3]]
         /\ UNCHANGED <<lab, setorder>>
Spec == Init /\ [][Build]_vars

(* ---- properties ---------------------------------------------------------- *)
(* C03: whatever order the set iterates in, the displayed state is the one of the group-list order *)
Deterministic == step = 1 => Display(det, MechOrder(setorder)) = Display(det, Canonical)
(* every combination list has 2^3 - 1 members, each interaction is swapped 4 times in total *)
CombCount == Len(GenComb(Pairs(Canonical))) = 7
(* the display permutes and relabels determinants, it never creates or loses one *)
Conserved == step = 1 => LET r == Display(det, Canonical) IN
                \A k \in {"cb", "sc"} :
                   LET tot(d) == Len(d[1][k]) + Len(d[2][k]) + Len(d[3][k]) IN tot(r) = tot(det)
EmitInv == (Emit /\ step = 1) =>
   PrintT(ToJson([det |-> det, order |-> setorder, expected |-> Display(det, Canonical)]))
=============================================================================
