------------------------------ MODULE Trace_Rel ------------------------------
(* Code -> spec: each record relates two real runs.                             *)
(*   kind  : which relation the transformation must establish                   *)
(*   ca,cb : conformation names of the two runs;  A, B : conf -> group records  *)
(*   scope : gids of run A's input (for "part inside a union" relations)        *)
(*   eps   : tolerance in micro-pKa for "the same number"                       *)
(*   bondsA, bondsB : bond sets as sequences of <<gid, gid>> (sorted), or <<>>   *)
(*   hydA, hydB : built hydrogens <<parent gid, x, y, z>> in run B's frame       *)
EXTENDS Relations, Json, IOUtils
Trace == JsonDeserialize(IOEnv.TRACE_FILE)
VARIABLE i
Init == i \in 1..Len(Trace)
Next == UNCHANGED i
Spec == Init /\ [][Next]_i
R == Trace[i]
ConfsA == SetOf(R.ca)
Both == ConfsA \cup {"AVR"}
E == R.eps

Applies(kinds) == R.kind \in kinds
SameConfs == Applies({"SameAll", "SameScores", "SameUpToLabels", "SameHeavy", "Part", "EnvKept"}) => R.ca = R.cb

(* everything equal, labels included (C07, C13, C04 with supplied hydrogens, C15 on/off, C03) *)
PAll(a, b)  == SameGroup(a, b, E, TRUE)
SameAll == Applies({"SameAll"}) => \A c \in Both : SameGroups(R.A[c], R.B[c], PAll)
(* every value equal, coupling marks not compared (C15: analysis on vs off) *)
PScores(a, b) == SameKind(a, b) /\ SameDesolv(a, b, E) /\ SameLabels(a, b)
                 /\ Near(a.pka6, b.pka6, E * (2 + Len(a.sc) + Len(a.bb) + Len(a.cb)))
                 /\ DetsSame(a.sc, b.sc, E, TRUE) /\ DetsSame(a.bb, b.bb, E, TRUE) /\ DetsSame(a.cb, b.cb, E, TRUE)
SameScores == Applies({"SameScores"}) => \A c \in Both : SameGroups(R.A[c], R.B[c], PScores)
(* everything but the labels (C06) *)
PLab(a, b)  == SameGroup(a, b, E, FALSE)
SameUpToLabels == Applies({"SameUpToLabels"}) => \A c \in Both : SameGroups(R.A[c], R.B[c], PLab)
(* heavy-atom quantities exact: protein and ion groups, desolvation, buried counts, bonds (C04 a) *)
Prot(gl) == SelectSeq(gl, LAMBDA g : g.het = 0 \/ g.type = "ION")
PHeavy(a, b) == a.type = b.type /\ a.rtype = b.rtype /\ a.q100 = b.q100 /\ a.model6 = b.model6 /\ a.bridged = b.bridged
                /\ a.nv = b.nv /\ a.bur4 = b.bur4 /\ Near(a.ev6, b.ev6, E) /\ Near(a.el6, b.el6, E)
SameHeavy == Applies({"SameHeavy"}) => \A c \in ConfsA : SameGroups(Prot(R.A[c]), Prot(R.B[c]), PHeavy)
SameBonds == Applies({"SameHeavy", "SameAll"}) /\ R.hasbonds = 1 => R.bondsA = R.bondsB
(* a part inside a larger structure behaves as the part alone (C05, C13) *)
InScope(gl) == SelectSeq(gl, LAMBDA g : g.gid \in SetOf(R.scope))
Part == Applies({"Part"}) => \A c \in Both : SameGroups(R.A[c], InScope(R.B[c]), PAll)
(* ... also when the rest of the structure comes in several conformations: the part, alone a single conformation, is the
   same in every conformation of the union and in the reported average *)
PartOfMulti == Applies({"PartOfMulti"}) =>
                  /\ \A c \in SetOf(R.cb) : SameGroups(R.A[R.ca[1]], InScope(R.B[c]), PAll)
                  /\ SameGroups(R.A["AVR"], InScope(R.B["AVR"]), PAll)
(* titrate-only keeps the environment (C14): listed groups keep desolvation and backbone terms, every
   group of the unrestricted run is still present with the same type *)
PEnv(a, b) == a.type = b.type /\ a.rtype = b.rtype /\ a.q100 = b.q100 /\ SameDesolv(a, b, E)
              /\ DetsSame(a.bb, b.bb, E, TRUE)
EnvKept == Applies({"EnvKept"}) =>
              /\ \A c \in ConfsA : Matches(R.B[c], R.A[c], PEnv)          \* B = restricted run: its scored groups
              /\ R.presentA = R.presentB                                  \* all groups still exist (gid, type)
(* ... and every residue still acts as hydrogen-bond partner: the same pairs of groups are joined by side-chain
   determinants, whether or not the groups titrate (values may differ through the buried-pair exception rules).
   scA / scB list the pairs scored non-iteratively; for iterative pairs the listing depends on computed pKa values *)
PartnersKept == Applies({"EnvKept"}) => R.scA = R.scB
(* iterative acid-base pairs (tla/Iterative.tla, Ion): R.ion lists the pairs that are hydrogen-bonded in the
   unrestricted run A, value hb > 0 by the geometric rule, and of which exactly one member is listed in run B, as
   <<present in B, acid pKa, base pKa, hb>> (micro-pKa, B's values).  With the unlisted member not titrating the Coulomb
   value of the pair is 0 in B, so at the fixed point of the iteration (R.conv = 1) the hydrogen bond may only be
   absent if the Ion rule does not add it: acid - hb >= base + hb.  An unlisted residue that stopped acting as
   hydrogen-bond partner shows as an absent pair whose pKa values say it must be there. *)
IonPairKept == Applies({"EnvKept"}) /\ R.conv = 1 =>
                 \A k \in 1..Len(R.ion) : LET p == R.ion[k] IN p[1] = 1 \/ p[2] - p[3] >= 2 * p[4] - 2000
(* hydrogens built in a moved frame are the moved hydrogens, up to coordinate rounding (C04 c, C17) *)
HydNear(h, k) == h[1] = k[1] /\ Near(h[2], k[2], R.epsc) /\ Near(h[3], k[3], R.epsc) /\ Near(h[4], k[4], R.epsc)
HydEquivariant == R.hashyd = 1 =>
              /\ Len(R.hydA) = Len(R.hydB)
              /\ \A k \in 1..Len(R.hydA) : \E j \in 1..Len(R.hydB) : HydNear(R.hydA[k], R.hydB[j])
              /\ \A j \in 1..Len(R.hydB) : \E k \in 1..Len(R.hydA) : HydNear(R.hydA[k], R.hydB[j])
(* the .pka text (apart from the date line) is identical where the relation promises identical results *)
TextSame == R.textcmp = 1 => R.textsame = 1
(* the rows of the written file come in the same order (as residue identities): labels identify, they do not sort *)
RowOrderSame == R.rowcmp = 1 => R.rowsA = R.rowsB
=============================================================================
