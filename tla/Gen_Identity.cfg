SPECIFICATION Spec
CONSTANTS
  NA = 4
  NB = 3
  Emit = TRUE
INVARIANT EmitInv
INVARIANT FullFaithful
INVARIANT WeakKeysFailOnTwinsOnly
CHECK_DEADLOCK FALSE
