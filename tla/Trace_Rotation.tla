--------------------------- MODULE Trace_Rotation ---------------------------
(* Code -> spec: results of the real rotate_vector_around_an_axis for generic   *)
(* (irrational) angles, quantised to 1/100, are checked against the three        *)
(* clauses of the statement with explicit integer tolerances.                    *)
(* Record: [n, v : integer vectors; c, s : round(100 cos), round(100 sin);       *)
(*          r : round(100 * result)]                                             *)
EXTENDS Rotation, Json, IOUtils, FiniteSets
Trace == JsonDeserialize(IOEnv.TRACE_FILE)
VARIABLE i
Init == i \in 1..Len(Trace)
Next == UNCHANGED i
Spec == Init /\ [][Next]_i
L1(a) == Abs(a[1]) + Abs(a[2]) + Abs(a[3])
T == Trace[i]
Near(x, y, tol) == Abs(x - y) <= tol
QAxial  == Near(Dot(T.n, T.r), 100 * Dot(T.n, T.v), L1(T.n) + 1)
QLength == Near(Sq(T.r), 10000 * Sq(T.v), 2 * L1(T.r) + 3)
pv == Perp(T.n, T.v)
pr == Perp(T.n, T.r)      \* = 100 N r_perp (+- quantisation)
QCos == Near(Dot(pv, pr), Sq(pv) * T.c, Sq(pv) + 2 * Sq(T.n) * L1(pv) + 2 * L1(T.n) * L1(T.n) * L1(pv) + 100)
(* handedness judged only when it is clear of quantisation: |sin| >= 0.2 and v_perp not tiny *)
QHand == (Abs(T.s) >= 20 /\ Sq(pv) >= Sq(T.n) * Sq(T.n)) =>
            Sgn(Dot(Cross(pv, pr), T.n)) = Sgn(T.s)
Accept == PrintT(<<"PKV", "trace_records", Len(Trace)>>)
=============================================================================
