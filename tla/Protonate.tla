------------------------------ MODULE Protonate ------------------------------
(***************************************************************************)
(* propka/protonate.py : set_number_of_protons_to_add,                     *)
(* set_steric_number_and_lone_pairs, add_protons / trigonal / tetrahedral. *)
(*                                                                         *)
(* An environment of a heavy atom: valence electrons val, number of bonded *)
(* atoms nb, pi electrons in double/triple bonds pi, conjugated pi         *)
(* electrons conj, formal charge q.                                        *)
(* Mechanism face: the electron counting and the cascade of "if nb = k"    *)
(* cases of the two builders (each added hydrogen raises nb by one).       *)
(* Declarative face: the number of hydrogens is the octet deficit, limited *)
(* by the free positions of the steric arrangement.                        *)
(***************************************************************************)
EXTENDS Integers, Sequences, FiniteSets, TLC

Max(a, b) == IF a > b THEN a ELSE b
Min(a, b) == IF a < b THEN a ELSE b
FloorHalf(x) == IF x >= 0 THEN x \div 2 ELSE -((-x + 1) \div 2)

ToAdd(e)  == 8 - e.val - e.nb - e.pi + e.q
Steric(e) == FloorHalf(e.val + e.nb + ToAdd(e) - e.pi - e.conj - e.q)

(* mechanism: the cascade; returns the number of hydrogens added *)
RECURSIVE Cascade(_, _, _, _)
Cascade(steric, nb, toadd, added) ==
   IF steric = 3 THEN
        IF (nb = 1 \/ nb = 2) /\ toadd > 0 THEN Cascade(steric, nb + 1, toadd - 1, added + 1) ELSE added
   ELSE IF steric = 4 THEN
        IF (nb = 1 \/ nb = 2 \/ nb = 3) /\ toadd > 0 THEN Cascade(steric, nb + 1, toadd - 1, added + 1) ELSE added
   ELSE added                                        \* "Do not have a method for protonating"
MechAdded(e) == Cascade(Steric(e), e.nb, ToAdd(e), 0)

(* declaration *)
DeclAdded(e) == IF e.nb >= 1 /\ Steric(e) \in {3, 4} THEN Max(0, Min(ToAdd(e), Steric(e) - e.nb)) ELSE 0
(* which construction places each hydrogen: (steric number, bonded atoms before it) *)
Branches(e) == [k \in 1..MechAdded(e) |-> <<Steric(e), e.nb + k - 1>>]

(* ---- geometry clauses of the statement, on integer milli-Angstrom coordinates ----------------------- *)
SqDist(p, q) == (p[1]-q[1])*(p[1]-q[1]) + (p[2]-q[2])*(p[2]-q[2]) + (p[3]-q[3])*(p[3]-q[3])
Abs(x) == IF x < 0 THEN -x ELSE x
(* |d - L| <= 0.87 milli (rounding of three coordinates to 0.001)  =>  |d^2 - L^2| <= 2 L + 2 *)
BondLengthOK(parent, h, L) == Abs(SqDist(parent, h) - L * L) <= 2 * L + 2
Apart(h1, h2) == SqDist(h1, h2) >= 500 * 500
=============================================================================
