---------------------------- MODULE MC_PdbReader ----------------------------
(* All well-formed record sequences up to MaxLen, grown one record per step.   *)
(* Well-formed: records of a residue are contiguous, residues are distinct,     *)
(* no duplicated (atom name, alt-loc) within a residue, a residue starts with   *)
(* N when it has one (except that hydrogens/het atoms may be anywhere after).   *)
EXTENDS PdbReader, Json
CONSTANTS MaxLen, Chains, Nums, Ics, Names, Alts, Kinds, RNames, WithModel, WithOther, Emit, ChainSets, KeepH
VARIABLES s
CS_None == {{}}
CS_AB == {{}, {"A"}, {"B"}, {"A", "B"}}
CS_Aa == {{}, {"A"}, {"a"}, {"A", "a"}}      \* chain identifiers are case-sensitive single characters
AtomRecs == [k : Kinds, ch : Chains, num : Nums, ic : Ics, rn : RNames, nm : Names, alt : Alts]
Recs == AtomRecs \cup {[k |-> "TER"]}
          \cup (IF WithModel THEN {[k |-> "MODEL", m |-> 2]} ELSE {})
          \cup (IF WithOther THEN {[k |-> "OTHER"]} ELSE {})
Last(q) == q[Len(q)]
(* previous atom record index (any kind), 0 if none *)
PrevAtom(q) == LET c == {j \in 1..Len(q) : IsAtomRec(q[j])} IN IF c = {} THEN 0 ELSE CHOOSE j \in c : \A x \in c : x <= j
(* records of one residue carry one residue name - except an alt-loc point mutant (micro-heterogeneity): copies with
   different non-blank alt-loc labels may be different amino acids *)
Mutant(a, b) == {a.rn, b.rn} = {"AA", "AB"} /\ a.alt # b.alt /\ a.alt # " " /\ b.alt # " "
SameRes(a, b) == Rid(a) = Rid(b) /\ (a.rn = b.rn \/ Mutant(a, b)) /\ a.k = b.k
WellFormedAppend(q, r) ==
  IF ~IsAtomRec(r) THEN
       \* TER / MODEL / OTHER only between residues (never twice in a row, to keep the space small)
       (IF Len(q) = 0 THEN TRUE ELSE Last(q).k # r.k)
  ELSE
    LET p == PrevAtom(q)
        sep == p # 0 /\ \E t \in (p + 1)..Len(q) : q[t].k \in {"TER", "MODEL"}
        cont == p # 0 /\ ~sep /\ Rid(q[p]) = Rid(r)
    IN /\ (cont => SameRes(q[p], r))
       \* within a residue one alt-loc label means one residue name
       /\ (cont => \A j \in 1..Len(q) : (IsAtomRec(q[j]) /\ Rid(q[j]) = Rid(r) /\ q[j].alt = r.alt
                                           /\ ~(\E t \in (j + 1)..Len(q) : q[t].k = "MODEL")) => q[j].rn = r.rn)
       \* a residue identity is used by one residue only (per model: a MODEL record starts afresh)
       /\ (~cont => \A j \in 1..Len(q) : IsAtomRec(q[j]) => (Rid(q[j]) # Rid(r) \/ \E t \in (j + 1)..Len(q) : q[t].k = "MODEL"))
       \* no duplicated atom within the residue
       /\ (cont => \A j \in 1..Len(q) : (IsAtomRec(q[j]) /\ Rid(q[j]) = Rid(r)
                                           /\ ~(\E t \in (j + 1)..Len(q) : q[t].k = "MODEL")) =>
                        ~(q[j].nm = r.nm /\ q[j].alt = r.alt))
       \* backbone N comes first in its residue (alt-loc copies of N directly after it)
       /\ (r.nm = "N" /\ cont => (q[p].nm = "N"))
       \* hydrogens only inside a residue, after one of its heavy atoms
       /\ (r.nm = "H" => cont)
Init == s = <<>>
Grow == /\ Len(s) < MaxLen
        /\ \E r \in {x \in Recs : WellFormedAppend(s, x)} : s' = Append(s, r)
Spec == Init /\ [][Grow]_s

Agree   == \A cs \in ChainSets : MechOut(s, cs, KeepH) = DeclOut(s, cs, KeepH)
(* C13 on the specification *)
C13_ChainSelect == \A cs \in ChainSets : cs # {} =>
                      Yielded(MechOut(s, cs, KeepH)) = Yielded(MechOut(Filter(s, cs), {}, KeepH))
(* C07 on the specification: ignorable records never change what is yielded *)
C07_Ignorable == Yielded(MechOut(s, {}, KeepH)) = Yielded(MechOut(Strip(s), {}, KeepH))
CSSeq == CHOOSE q \in [1..Cardinality(ChainSets) -> ChainSets] : \A a, b \in DOMAIN q : a # b => q[a] # q[b]
EmitInv == (Emit /\ Len(s) > 0) =>
             PrintT(ToJson([s |-> s, keepH |-> KeepH,
                            out |-> [j \in DOMAIN CSSeq |-> [cs |-> CSSeq[j], o |-> DeclOut(s, CSSeq[j], KeepH)]]]))
=============================================================================
