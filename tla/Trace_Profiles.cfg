SPECIFICATION Spec
INVARIANT GridExact
INVARIANT ChargeGrid
INVARIANT Axioms
INVARIANT SumOfGroups
INVARIANT FoldSum
INVARIANT BracketF
INVARIANT BracketU
INVARIANT BisectConforms
INVARIANT LinkGroups
INVARIANT LinkTotal
INVARIANT Optimum
INVARIANT Range80
INVARIANT StabRange
INVARIANT FoldRows
INVARIANT ChargeRows
INVARIANT PiLine
INVARIANT OptLine
CHECK_DEADLOCK FALSE
