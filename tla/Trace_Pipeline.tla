--------------------------- MODULE Trace_Pipeline ---------------------------
(* Code -> spec: each record is the event sequence of one real run (pkv/pipeline.py); it is accepted iff folding      *)
(* Pipeline!Apply over it never rejects, and complete iff it ends averaged or written.                               *)
EXTENDS Pipeline, Json, IOUtils
Trace == JsonDeserialize(IOEnv.TRACE_FILE)
VARIABLE i
Init == i \in 1..Len(Trace)
Next == UNCHANGED i
Spec == Init /\ [][Next]_i
Es == Trace[i].events
T_Accepted == IF Accepted(Es) THEN TRUE
              ELSE PrintT(ToJson([rec |-> i, at |-> Consumed(Es) + 1])) /\ FALSE
T_Complete == Accepted(Es) => Complete(Es)
=============================================================================
