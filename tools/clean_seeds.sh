#!/bin/sh
# False-alarm sweep: every quick check on a clean tree (PKV_REPO, default /tmp/wt_clean) under several VERIF_SEED values.
# usage: tools/clean_seeds.sh <tree> <seed...>     prints one line per (seed, check); lines with violations=0 are fine
cd "$(dirname "$0")/.."
tree=$1; shift
for s in "$@"; do
  for i in 01 02 03 04 05 06 07 08 09 10 11 12 13 14 15 16 17 18 19 20; do
    echo "seed=$s $(PKV_REPO=$tree VERIF_SEED=$s ./check C$i 2>&1 | grep -E '^VIOLATION|tier=|MACHINERY' | tr '\n' ' ' | cut -c1-260)"
  done
done
git checkout -- evidence 2>/dev/null
echo SWEEP-DONE
