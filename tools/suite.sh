#!/bin/sh
# run the repository's baseline suite (guard off) against $1 (default /repo)
cd "${1:-/repo}" && /venv/bin/python -m pytest -q -p no:cacheprovider --timeout=900 -x -q 2>&1 | tail -4
