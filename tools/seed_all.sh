#!/bin/sh
# Formal evaluation of every seeded change found in /tmp/<round>_Cxx/_seed that has no evaluation record yet.
# usage: tools/seed_all.sh w2 w3 ...   (applies each patch to /repo, runs the attacked property's quick check, undoes it)
cd "$(dirname "$0")/.."
for r in "$@"; do
for i in 01 02 03 04 05 06 07 08 09 10 11 12 13 14 15 16 17 18 19 20; do
  d=/tmp/${r}_C$i/_seed
  [ -f $d/patch.diff ] || continue
  [ -f seeded/${r}_C$i/meta.json ] && grep -q '"evaluation"' seeded/${r}_C$i/meta.json && continue
  echo "=== ${r}_C$i"
  ./tools/seed_eval.py C$i $d 2>&1 | grep -E "^C[0-9]+ exit|CAUGHT|NOT-|refusing"
done
done
echo ALLDONE
