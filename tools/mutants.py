#!/venv/bin/python
"""Mutation sampling: small syntactic changes to the repository's sources (comparison boundaries, +/-, and/or, negated
conditions, constants), filtered by the repository's own test-suite, then run against the checks whose property is
anchored in the mutated file.  Nothing here touches /repo: every mutant lives in a scratch worktree under /tmp that is
removed at the end.

usage: tools/mutants.py [-n N] [-j SLOTS] [--seed S] [--files a.py,b.py] [--out report.json]

The report lists, per mutant that the test-suite does not notice, which checks raise a VIOLATION.  A surviving mutant
is either equivalent / outside every listed property (to be judged by reading it) or a gap in the checks.
"""
import ast
import concurrent.futures as cf
import json
import os
import queue
import random
import subprocess
import sys
import time

VERIF = os.path.dirname(os.path.dirname(os.path.abspath(__file__)))
REPO = "/repo"
SKIP_FILES = {"__init__.py", "_version.py", "__main__.py"}


def anchors():
    m = {}
    for ln in open(os.path.join(VERIF, "properties.jsonl")):
        p = json.loads(ln)
        for f in p["anchors"]["files"]:
            if f.endswith(".py"):
                m.setdefault(os.path.basename(f), []).append(p["id"])
    # files whose effect is visible through checks that do not list them as anchors
    m.setdefault("ligand.py", []).insert(0, "C01")
    m.setdefault("protonate.py", []).insert(0, "C01")
    for pid in ("C17", "C04", "C01"):
        if pid not in m.setdefault("atom.py", []):
            m["atom.py"].append(pid)
    for pid in ("C02", "C10"):
        if pid not in m.setdefault("output.py", []):
            m["output.py"].append(pid)
    for f in ("conformation_container.py", "group.py"):
        for pid in ("C04", "C05", "C16"):
            if pid not in m.setdefault(f, []):
                m[f].append(pid)
    return m


CMP = {ast.Lt: "<=", ast.LtE: "<", ast.Gt: ">=", ast.GtE: ">", ast.Eq: "!=", ast.NotEq: "=="}
CMPTXT = {ast.Lt: "<", ast.LtE: "<=", ast.Gt: ">", ast.GtE: ">=", ast.Eq: "==", ast.NotEq: "!="}


def sites(path):
    """Yield (line, col_start, col_end, old, new, kind) single-line token replacements."""
    src = open(path).read()
    lines = src.splitlines()
    tree = ast.parse(src)
    out = []

    def between(a, b):
        """Source text between the end of node a and the start of node b when on one line."""
        if a.end_lineno != b.lineno:
            return None
        return a.end_lineno, a.end_col_offset, b.col_offset, lines[a.end_lineno - 1][a.end_col_offset:b.col_offset]

    for node in ast.walk(tree):
        if isinstance(node, ast.Compare) and len(node.ops) == 1 and type(node.ops[0]) in CMP:
            r = between(node.left, node.comparators[0])
            if r:
                ln, c0, c1, txt = r
                old = CMPTXT[type(node.ops[0])]
                k = txt.find(old)
                if k >= 0 and txt.strip() == old:
                    out.append((ln, c0 + k, c0 + k + len(old), old, CMP[type(node.ops[0])], "compare"))
        elif isinstance(node, ast.BoolOp) and len(node.values) == 2:
            r = between(node.values[0], node.values[1])
            if r:
                ln, c0, c1, txt = r
                old = "and" if isinstance(node.op, ast.And) else "or"
                if txt.strip() == old:
                    k = txt.find(old)
                    out.append((ln, c0 + k, c0 + k + len(old), old, "or" if old == "and" else "and", "boolop"))
        elif isinstance(node, ast.BinOp) and type(node.op) in (ast.Add, ast.Sub):
            r = between(node.left, node.right)
            if r:
                ln, c0, c1, txt = r
                old = "+" if isinstance(node.op, ast.Add) else "-"
                if txt.strip() == old:
                    k = txt.find(old)
                    out.append((ln, c0 + k, c0 + k + 1, old, "-" if old == "+" else "+", "arith"))
        elif isinstance(node, ast.Constant) and isinstance(node.value, (int, float)) and not isinstance(node.value, bool) \
                and node.lineno == node.end_lineno:
            old = lines[node.lineno - 1][node.col_offset:node.end_col_offset]
            try:
                float(old)
            except ValueError:
                continue
            if isinstance(node.value, int):
                new = str(node.value + 1)
            else:
                new = repr(round(node.value * 1.1 + 0.01, 6))
            out.append((node.lineno, node.col_offset, node.end_col_offset, old, new, "constant"))
        elif isinstance(node, (ast.If, ast.While)) and node.test.lineno == node.test.end_lineno and not isinstance(node.test, ast.Constant):
            t = node.test
            old = lines[t.lineno - 1][t.col_offset:t.end_col_offset]
            out.append((t.lineno, t.col_offset, t.end_col_offset, old, f"not ({old})", "negate"))
        elif isinstance(node, ast.UnaryOp) and isinstance(node.op, ast.Not) and node.lineno == node.end_lineno:
            old = lines[node.lineno - 1][node.col_offset:node.end_col_offset]
            inner = lines[node.operand.lineno - 1][node.operand.col_offset:node.operand.end_col_offset]
            out.append((node.lineno, node.col_offset, node.end_col_offset, old, f"({inner})", "drop-not"))
    # docstrings and logging strings never reach here; drop duplicates
    return sorted(set(out))


def mutate(path, site):
    ln, c0, c1, old, new, kind = site
    lines = open(path).read().split("\n")
    s = lines[ln - 1]
    assert s[c0:c1] == old, (s[c0:c1], old)
    lines[ln - 1] = s[:c0] + new + s[c1:]
    return "\n".join(lines)


def sh(cmd, cwd=None, env=None, timeout=3600):
    p = subprocess.run(cmd, shell=True, cwd=cwd, env=env, stdout=subprocess.PIPE, stderr=subprocess.STDOUT, text=True, timeout=timeout)
    return p.returncode, p.stdout


def evaluate(job, slots, anch):
    fname, site = job
    wt = slots.get()
    try:
        sh("git checkout -q -- . && git clean -qfd", cwd=wt)
        target = os.path.join(wt, "propka", fname)
        try:
            new_src = mutate(target, site)
            ast.parse(new_src)
        except Exception as ex:  # noqa
            return {"file": fname, "site": site, "status": "invalid", "msg": repr(ex)}
        open(target, "w").write(new_src)
        rec = {"file": fname, "line": site[0], "kind": site[5], "old": site[3], "new": site[4],
               "source": new_src.split("\n")[site[0] - 1].strip()}
        t0 = time.time()
        rc, out = sh("/venv/bin/python -m pytest -q -x -p no:cacheprovider --timeout=600 2>&1 | tail -3", cwd=wt, timeout=1800)
        rec["suite_s"] = round(time.time() - t0, 1)
        if " passed" not in out or "failed" in out or "error" in out.lower():
            rec["status"] = "killed-by-tests"
            return rec
        rec["status"] = "passes-tests"
        rec["checks"] = {}
        env = dict(os.environ, PKV_REPO=wt)
        for pid in anch.get(fname, []):
            t0 = time.time()
            try:
                rc, out = sh(f"./check {pid}", cwd=VERIF, env=env, timeout=2400)
            except subprocess.TimeoutExpired:
                rc, out = 3, "TIMEOUT"
            viol = [ln for ln in out.splitlines() if ln.startswith("VIOLATION")]
            first = ""
            ls = out.splitlines()
            for i, ln in enumerate(ls):
                if ln.startswith("VIOLATION") and i + 1 < len(ls):
                    first = ls[i + 1].strip()[:160]
                    break
            rec["checks"][pid] = {"exit": rc, "violations": len(viol), "first": first, "wall_s": round(time.time() - t0, 1)}
            if rc == 2:
                rec["checks"][pid]["tail"] = out[-400:]
            if rc == 1:
                break           # caught: the remaining checks of this file are not needed
        rec["caught_by"] = sorted(p for p, v in rec["checks"].items() if v["exit"] == 1)
        rec["machinery_failure"] = sorted(p for p, v in rec["checks"].items() if v["exit"] not in (0, 1))
        return rec
    finally:
        sh("git checkout -q -- . && git clean -qfd", cwd=wt)
        slots.put(wt)


def main():
    args = sys.argv[1:]
    n, j, seed, files, outp = 120, 6, 1, None, os.path.join(VERIF, ".work", "mutants.json")
    i = 0
    while i < len(args):
        if args[i] == "-n":
            n = int(args[i + 1]); i += 2
        elif args[i] == "-j":
            j = int(args[i + 1]); i += 2
        elif args[i] == "--seed":
            seed = int(args[i + 1]); i += 2
        elif args[i] == "--files":
            files = args[i + 1].split(","); i += 2
        elif args[i] == "--out":
            outp = args[i + 1]; i += 2
        else:
            i += 1
    anch = anchors()
    rng = random.Random(seed)
    allsites = []
    for f in sorted(os.listdir(os.path.join(REPO, "propka"))):
        if not f.endswith(".py") or f in SKIP_FILES or (files and f not in files) or f not in anch:
            continue
        for s in sites(os.path.join(REPO, "propka", f)):
            allsites.append((f, s))
    rng.shuffle(allsites)
    jobs = allsites[:n]
    print(f"{len(allsites)} mutation sites in {len({f for f, _ in allsites})} anchored files; sampling {len(jobs)}", flush=True)
    slots = queue.Queue()
    wts = []
    for k in range(j):
        wt = f"/tmp/mut_{os.getpid()}_{k}"
        sh(f"git -C {REPO} worktree add -q --detach {wt} HEAD")
        wts.append(wt)
        slots.put(wt)
    results = []
    try:
        with cf.ThreadPoolExecutor(max_workers=j) as ex:
            for rec in ex.map(lambda jb: evaluate(jb, slots, anch), jobs):
                results.append(rec)
                tag = rec["status"] if rec["status"] != "passes-tests" else ("CAUGHT " + ",".join(rec["caught_by"]) if rec["caught_by"] else "SURVIVED")
                print(f"{rec['file']}:{rec.get('line')} {rec.get('kind')} {rec.get('old')!r}->{rec.get('new')!r}  {tag}", flush=True)
                os.makedirs(os.path.dirname(outp), exist_ok=True)
                json.dump(results, open(outp, "w"), indent=1)
    finally:
        for wt in wts:
            sh(f"git -C {REPO} worktree remove --force {wt}")
        sh("git checkout -- evidence", cwd=VERIF)
    passed = [r for r in results if r["status"] == "passes-tests"]
    caught = [r for r in passed if r["caught_by"]]
    print(f"sampled {len(results)}: killed by the test-suite {sum(1 for r in results if r['status'] == 'killed-by-tests')}, "
          f"pass the test-suite {len(passed)}, of these caught by a check {len(caught)}, survived {len(passed) - len(caught)}")


if __name__ == "__main__":
    main()
