#!/venv/bin/python
"""Prints the markdown table 'seeded change -> checks that catch it' from /verif/seeded/*/meta.json.

usage: tools/seed_table.py [--long]      (default: compact rows for DESIGN.md 11.6)
"""
import glob
import json
import os
import sys

# what had to be added to the checks before the change was caught ("" = caught by the checks as they were)
ADDED = {
    "C01": "same-type insertion-code twins in the census corpus",
    "C03": "parameter-file option in histories, cache hazard in RunHistory, PureRef against fresh-interpreter references",
    "C06": "boundary shifts (chain B starts at the number chain A ends with)",
    "C08": "ASP/HIS point mutants (ionizable group on the same atom name) in the generator",
    "C09": "exact-sign bracket of the pI on the curve of the reported groups",
    "C14": "same-type twins and two ligand copies in one chain under a titrate-only list",
    "C17": "equivariance replays on planar / distorted sp2 neighbours",
    "C18": "unmerged short line sequences (VIEW hid the history that drives the remembered value)",
    "w2_C01": "truncations that keep the defining atom but remove the interaction atoms",
    "w2_C05": "unions whose second part starts with the number the first part ends with",
    "w2_C06": "shifts by +-1000",
    "w2_C10": "multi-conformation inputs in the profile traces (FoldSum per conformation and for the average)",
    "w2_C12": "C-terminal template (OXT without C) in Truncation.tla",
    "w2_C14": "PartnersKept: non-iterative hydrogen-bond partners keep listing each other",
    "w2_C15": "coupling that exists in a later conformation only",
    "w2_C16": "parameter-file variants (desolvationAllowance > 0)",
    "w2_C17": "hetero amino acid (MSE) linked into the chain",
    "w2_C19": "multi-conformation inputs with ligand serials in the serial-rewrite relation",
    "w2_C20": "scaled and near-parallel triples",
    "w3_C01": "alt-loc point mutants in the reader alphabet (RNames AA/AB), KeyKind \"named\" self-test",
    "w3_C02": "chains truncated to start at ASP / HIS / CYS (covalently coupled, penalised)",
    "w3_C03": "a decoy propka.cfg in the working directory of a history",
    "w3_C04": "fragment with a truncated carboxylate",
    "w3_C05": "a structure and its copy in the same chain (ligand groups share a label)",
    "w3_C06": "dimer fragment with alternate locations in both chains (and two-chain key set in the C08 generator)",
    "w3_C07": "hydrogens whose alt-loc label no heavy atom uses; multi-conformation inputs",
    "w3_C08": "unaggregated determinant lists, ion inputs, AgreeingAverageToThemselves",
    "w3_C12": "ligand-kit truncations; --protonate-all on truncated inputs",
    "w3_C13": "chain identifiers that differ only in case (CS_Aa in MC_PdbReader, A/a runs)",
    "w3_C14": "a list that names no existing residue",
    "w3_C15": "replay of the whole probe (is_coupled_protonation_state_probability) incl. twin labels (EqualLabels)",
    "w3_C16": "twin ions next to buried groups",
    "w4_C01": "a disulfide turned parallel to an axis and pushed along it in 0.01 A steps",
    "w4_C02": "point-mutant conformations (a reported group in some conformations only)",
    "w4_C03": "every (content, option) key repeated systematically; a fragment that really is coupled",
    "w4_C04": "translations that put a constructed hydrogen exactly on a coordinate plane",
    "w4_C05": "a first part holding a group without interaction atoms",
    "w4_C06": "relabelling mode: lone insertion code on a unique number (AddCode) on the alt-loc dimer",
    "w4_C07": "hydrogen names of real files (four characters, leading digits, primes), also in hetero residues",
    "w4_C08": "SameResidueSameGroups; whole terminal residues in two alternate locations",
    "w4_C11": "run-level part: bridged cysteines under -i / -d / --protonate-all",
    "w4_C14": "alt-loc fragment and disulfide fragment under titrate-only lists",
    "w4_C15": "a coupled partner that is also penalised by covalent coupling",
    "w4_C16": "buried-fraction bound also on the reported average",
    "w5_C02": "chain selections the writer has to render (blank identifier, a chain named twice, reverse order)",
    "w5_C03": "one path reused for successive contents of equal size with a preserved time stamp",
    "w5_C04": "a covalently coupled chain start scored with the optional parameter settings (common charge centre, sharing)",
    "w5_C05": "unions of two covalently coupled systems under the optional parameter settings",
    "w5_C06": "relabellings under a chain selection; chain map that changes case only",
    "w5_C07": "three alternate locations (A/B and A/B/C) so that completion has a choice of source",
    "w5_C11": "a two-letter element (selenium) in the placement alphabet and the clouds",
    "w5_C15": "logging-verbosity options as further 'analysis on, nothing displayed' variants",
    "w5_C16": "C16_CoulombSource: a Coulomb determinant comes from a titrating group or a configured ion",
    "w5_C17": "Trace_HydSet: the complete hydrogen set, default and with the program's own hydrogens kept (-k)",
    "w5_C18": "numeric entries in interaction-matrix rows (stored as numbers in both orientations)",
    "w5_C19": "serials that restart in every MODEL / are all equal, on inputs that need completion",
}
ADDED.update({
    "w6_C01": "bridged cysteines that share a residue number (E42/F42, E42/E42A)",
    "w6_C03": "the second chain selected first, then everything (first-seen order of chains)",
    "w6_C04": "a record repeated 0.02 A away, with translations over a full 0.1 A period",
    "w6_C05": "the largest separations the coordinate field admits (corner to corner, end to end of one axis)",
    "w6_C06": "RowOrderSame: the rows of the written file keep their order under renaming",
    "w6_C07": "--protonate-all on every ligand group type of the kit",
    "w6_C11": "exact ties: pairs exactly on a threshold at coordinates that are exact in binary (Gen_CellList_ties)",
    "w6_C13": "chain selection together with a titrate-only list (blank chain written '_')",
    "w6_C15": "coupled constructs under the optional parameter settings of covalent coupling (shared, kept)",
    "w6_C16": "two lysines hydrogen-bonded at 3.2 A (iterative base-base pair with a side-chain term)",
    "w6_C17": "a chain whose first residue shares its number with the insertion-coded residues after it",
})
ADDED.update({
    "w7_C01": "ions under their wwPDB atom names (FE2 -> FE, IOD -> I), always in the quick selection",
    "w7_C02": "a chain that ends in an acid (side chain and C-terminus: two groups of one type in one residue)",
    "w7_C03": "content behind a UTF-8 byte-order mark, by path and by stream",
    "w7_C04": "an NH2 group whose N-C(sp2) bond lies exactly along x (align_to_axis + snap)",
    "w7_C05": "the intact part sitting around the coordinate origin",
    "w7_C06": "inter-chain disulfide between cysteines with the same residue number",
    "w7_C08": "a disulfide that exists in one alternate location only",
    "w7_C09": "grids finer than two decimals (0.125, 0.025); group charges evaluated at the pH each charge row reports",
    "w7_C11": "equal serial numbers in one of the three replays of every placement",
    "w7_C13": "several chains selected in the reverse of the file order (also all of them)",
    "w7_C14": "a free cysteine hydrogen-bonded to a lysine of another chain (partner of a listed residue)",
    "w7_C16": "chains truncated to start at a free cysteine / aspartate / histidine",
    "w7_C17": "the program's own hydrogens supplied under the old naming convention (digit first), not kept",
})
ADDED.update({
    "w8_C01": "census also for alternate-location inputs; alt-locs together with a titrate-only list",
    "w8_C03": "a three-group coupled system with -d under eight interpreter hash seeds",
    "w8_C04": "halomethanes (C-F ... C-I) around a fragment; bromo- and iodomethane in the kit",
    "w8_C05": "a priming run under a parameter file with much larger cut-offs before the unions",
    "w8_C06": "titrate-only lists relabelled along with the structure (negative numbers)",
    "w8_C07": "Trace_HydSet on the runs that keep the program's own hydrogens (no H-H bond), 1HPX protein",
    "w8_C09": "ConfPiLine: the section written for a single conformation states that conformation's pI",
    "w8_C11": "Trace_BondSet: bond set of full runs (kept input hydrogens included) vs the pairwise rule",
    "w8_C12": "acids in the structure of the C-terminal window",
    "w8_C13": "a hetero group without chain identifier next to chains that have one",
    "w8_C14": "C14_UnlistedUnscored: no desolvation data for groups that are not listed",
    "w8_C15": "a coupled pair whose residues carry different insertion codes",
    "w8_C16": "exception values bound per pair class (ExcFor); free cysteine at the buried histidine (S195C)",
    "w8_C18": "look-ups interleaved with the parsed lines (a look-up is an observation)",
})
ADDED.update({
    "w9_C01": "C01_OneResiduePerPosition on point mutants with a third conformation that lacks the position (alt-locs, models)",
    "w9_C02": "conformations that disagree on which member of a covalently coupled system titrates (4DFR, ASP A 27 given a second location)",
    "w9_C04": "translations that put the structure at the edge of the coordinate field (max 9999.9 / min -999.9)",
    "w9_C08": "same-type twins in two conformations",
    "w9_C11": "two distinct atoms on one position (d = 0 admitted in the placement generator)",
    "w9_C13": "one invocation with several structures (propka.run.main -c X first -f second)",
    "w9_C14": "IonPairKept: iterative acid-base pairs with one member listed, decided by the Ion rule of Iterative.tla at the fixed point",
    "w9_C15": "coupled constructs under -d (display of the alternative state) in the marks / stars invariants",
    "w9_C16": "shared-determinant parameter variants on structures with covalently coupled systems (4DFR, chain starts)",
    "w9_C17": "a fragment lying across x = -100 and y = +1000 (coordinates that need all eight columns)",
    "w9_C19": "serials that are all zero / zero-based per model",
    "w9_C20": "axes a rounding error away from a coordinate axis or plane (component 1e-9 ... 1e-100)",
})
ADDED.update({
    "w10_C01": "C01_Identity (a reported group carries chain, number, code of the residue it was read from); numbers >= 1000 / <= -100",
    "w10_C02": "same-type insertion-code twins (equal labels) in the rendering runs",
    "w10_C03": "a covalently coupled system of three groups two of which almost tie (methyl phosphate), under permuted set orders",
    "w10_C04": "a supplied proton within the X-H criterion of two heavy atoms, moved in quarter-cell steps (found F13 on the way)",
    "w10_C05": "PartOfMulti: the far part has alternate locations (two conformations in the union, one in the part alone)",
    "w10_C06": "four-column residue numbers on the whole 1HPX dimer (coupled pair only just)",
    "w10_C07": "record types ENDMDL / END / LINK / SSBOND ... among the 'other' records (reader replay and edits)",
    "w10_C08": "kept supplied hydrogens (-k) in multi-conformation inputs: atoms of the file like any others in CompletedOK",
    "w10_C09": "ChargeGrid reported by C09 too; grids whose accumulated sum drifts upward (3-9/0.15, 0-14/0.4)",
    "w10_C10": "groups with a customised model pKa (custom_model_pkas by parameter file, nucleotide under the shipped file)",
})
ADDED.update({
    "w11_C03": "the caller's stream object handed in twice, and one the caller has already read from",
    "w11_C04": "--protonate-all under the lattice motions (heavy-atom quantities, clause a)",
    "w11_C05": "a part whose coupled system is coupled only just (1FTJ + bound glutamate) next to another protein",
    "w11_C06": "the two methotrexates of 4DFR swap chain identifiers (label of a discarded group moves to a kept one)",
    "w11_C07": "records that end with the coordinates or inside the columns after them",
    "w11_C16": "alt-loc point mutant whose variant A holds a base with acid partners (3SGB ARG/ALA E 138)",
    "w11_C17": "occupancy 0.00 on a fifth of the atoms of a complete fragment",
    "w11_C18": "constant-level TLC invariants that are FALSE ('The invariant of X is equal to FALSE') read as a verdict, not as a machinery failure",
})
ADDED.update({
    "w12_C01": "a titrate-only list naming negative residue numbers (<= -10) in the run-level census",
    "w12_C03": "the custom parameter file of the histories also changes a threshold of the coupling analysis",
    "w12_C04": "a disulfide whose S-S vector lies along x, under all 24 rotations",
    "w12_C05": "a part with insertion-coded residues of different types next to a part with alternate locations",
    "w12_C09": "sites whose pKa lies far outside the pH range (20, 31, -3): axioms on recorded curves",
    "w12_C10": "ConfChargeRows: the file output.write_pka writes for a single conformation shows that conformation's charge curve",
    "w12_C12": "ensembles in which one model only is truncated (first / inner / last residue, OXT, side chains)",
    "w12_C13": "blank chain identifier in a file that carries an identification code in columns 73-76",
    "w12_C14": "a titrate-only list together with a chain selection that selects everything (blank chain: ' ' vs '_')",
    "w12_C15": "the pKa window of the coupling analysis given explicitly in a parameter file",
    "w12_C16": "C-terminal oxygens under the names OT1 / OT2 on the whole dimer",
    "w12_C17": "complements checked in every conformation; insertion-coded residues + an alt-loc elsewhere",
})
ADDED.update({
    "w13_C03": "a file with CR-LF line ends and a TER record without trailing blanks, by path and by stream",
    "w13_C04": "a bifurcated hydrogen bond: two carboxylate oxygens whose squared distances to a supplied hydrogen differ by < 0.0008 A^2",
    "w13_C05": "a part written without chain identifier next to a part in chain A with the same residue numbers",
    "w13_C08": "a chain that only the second model has; layout of the average's file (F_TablesAgree) on multi-conformation runs",
    "w13_C11": "atoms of different chains and residues in the equal-serial replay (labels do not enter the distance rule)",
    "w13_C14": "lists that name two chains (a number listed for one chain, existing or not, is not listed for the other)",
    "w13_C16": "the whole remaining chain for chains truncated to start at an aspartate (a buried amino terminus)",
    "w13_C17": "hydrides of elements without a tabulated X-H length (Se, P, B): bonded by the program's own criterion",
    "w13_C19": "a malformed serial field inside a structure file: the run is rejected with ValueError",
})
ROUND = {"C": 1, "w2": 2, "w3": 3, "w4": 4, "w5": 5, "w6": 6, "w7": 7, "w8": 8, "w9": 9, "w10": 10, "w11": 11, "w12": 12, "w13": 13}


def write_design():
    """Replace the text between the SEEDTABLE markers of DESIGN.md by the compact table."""
    import io
    import contextlib
    buf = io.StringIO()
    sys.argv = [a for a in sys.argv if a != "--write-design"]
    with contextlib.redirect_stdout(buf):
        main()
    root = os.path.dirname(os.path.dirname(os.path.abspath(__file__)))
    p = os.path.join(root, "DESIGN.md")
    s = open(p).read()
    a = s.index("<!-- SEEDTABLE-BEGIN")
    a = s.index("\n", a) + 1
    b = s.index("<!-- SEEDTABLE-END -->")
    open(p, "w").write(s[:a] + buf.getvalue() + s[b:])
    print("DESIGN.md: seed table written (%d lines)" % buf.getvalue().count("\n"))


def main():
    long = "--long" in sys.argv
    rows = []
    root = os.path.dirname(os.path.dirname(os.path.abspath(__file__)))
    for f in sorted(glob.glob(os.path.join(root, "seeded", "*", "meta.json"))):
        sid = os.path.basename(os.path.dirname(f))
        m = json.load(open(f))
        ev = m.get("evaluation", {})
        caught = [c for c, v in ev.get("checks", {}).items() if v.get("exit") == 1]
        first = next((v.get("first", "") for c, v in ev.get("checks", {}).items() if v.get("exit") == 1), "")
        summ = " ".join(str(m.get("summary", "")).split())
        needs = " ".join(str(m.get("needs", "")).split())
        rows.append((sid, m.get("property", "?"), summ, needs,
                     ", ".join(caught) or ("not confirmed" if not ev.get("confirmed") else "MISSED"), first))
    rows.sort(key=lambda r: (ROUND.get(r[0].split("_")[0] if "_" in r[0] else "C", 9), r[0]))
    if long:
        print("| seeded change | property | what was changed | needs to manifest | caught by | first violation key |")
        print("|---|---|---|---|---|---|")
        for sid, pid, summ, needs, caught, first in rows:
            print(f"| {sid} | {pid} | {summ[:230]} | {needs[:200]} | {caught} | `{':'.join(first.split(':')[0:3])}` |")
        return
    print("| round | property | seeded change (abridged) | caught by: first violation key | added to the checks first |")
    print("|---|---|---|---|---|")
    for sid, pid, summ, needs, caught, first in rows:
        rnd = ROUND.get(sid.split("_")[0] if "_" in sid else "C", "?")
        key = ":".join(first.split(":")[0:3]).strip()[:70]
        print(f"| {rnd} | {pid} | {summ[:150].replace('|', '/')} | {caught}: `{key}` | {ADDED.get(sid, '')} |")
    n = len(rows)
    ok = sum(1 for r in rows if r[4] not in ("MISSED", "not confirmed"))
    print(f"\n{ok} of {n} confirmed seeded changes are caught by the quick tier of the attacked property's check; "
          f"{sum(1 for r in rows if r[0] in ADDED)} of them only after the strengthening named in the last column.")


if __name__ == "__main__":
    if "--write-design" in sys.argv:
        write_design()
    else:
        main()
