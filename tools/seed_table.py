#!/venv/bin/python
"""Prints the markdown table 'seeded change -> checks that catch it' from /verif/seeded/*/meta.json."""
import glob
import json
import os

rows = []
for f in sorted(glob.glob(os.path.join(os.path.dirname(os.path.dirname(os.path.abspath(__file__))), "seeded", "*", "meta.json"))):
    sid = os.path.basename(os.path.dirname(f))
    m = json.load(open(f))
    ev = m.get("evaluation", {})
    caught = [c for c, v in ev.get("checks", {}).items() if v.get("exit") == 1]
    first = next((v.get("first", "") for c, v in ev.get("checks", {}).items() if v.get("exit") == 1), "")
    summ = " ".join(str(m.get("summary", "")).split())[:230]
    needs = " ".join(str(m.get("needs", "")).split())[:200]
    rows.append((sid, m.get("property", "?"), summ, needs, ", ".join(caught) or ("not confirmed" if not ev.get("confirmed") else "MISSED"),
                 first.split(":")[0:3]))
print("| seeded change | property | what was changed | needs to manifest | caught by | first violation key |")
print("|---|---|---|---|---|---|")
for sid, pid, summ, needs, caught, first in rows:
    print(f"| {sid} | {pid} | {summ} | {needs} | {caught} | `{':'.join(first)}` |")
