#!/venv/bin/python
"""Regression over every recorded seeded change without touching /repo: each patch is applied in a scratch worktree
(outside /repo and /verif, removed afterwards) and the attacked property's quick check is run against it with
PKV_REPO=<worktree>.  usage: tools/seed_regress.py [-j N] [ids...]    Prints one line per seed; exit 1 if one is missed."""
import concurrent.futures as cf
import glob
import json
import os
import subprocess
import sys

VERIF = os.path.dirname(os.path.dirname(os.path.abspath(__file__)))


def one(sid):
    d = os.path.join(VERIF, "seeded", sid)
    meta = json.load(open(os.path.join(d, "meta.json")))
    pid = meta.get("property") or sid[-3:]
    wt = f"/tmp/sr_{sid}_{os.getpid()}"
    subprocess.run(f"git -C /repo worktree add -q --detach {wt} HEAD", shell=True)
    try:
        r = subprocess.run(f"git -C {wt} apply {d}/patch.diff", shell=True, capture_output=True, text=True)
        if r.returncode != 0:
            return sid, pid, "PATCH-FAILS", r.stderr[-200:]
        env = dict(os.environ, PKV_REPO=wt)
        p = subprocess.run(f"./check {pid}", shell=True, cwd=VERIF, env=env, capture_output=True, text=True, timeout=3600)
        viol = [ln for ln in p.stdout.splitlines() if ln.startswith("VIOLATION")]
        if p.returncode == 1 and viol:
            return sid, pid, "CAUGHT", ""
        # not caught: does the change still break the property on this HEAD? (a later repair of /repo can make a recorded
        # change harmless - its own demonstration then passes with the patch applied)
        demo = os.path.join(d, "demo.py")
        if os.path.exists(demo):
            q = subprocess.run(f"/venv/bin/python {demo} {wt}", shell=True, cwd=wt, capture_output=True, text=True, timeout=1800)
            if q.returncode == 0:
                return sid, pid, "HARMLESS-ON-HEAD(demo passes with the patch)", ""
        return sid, pid, f"MISSED(exit {p.returncode})", ""
    finally:
        subprocess.run(f"git -C /repo worktree remove --force {wt}", shell=True)


def main():
    args = sys.argv[1:]
    j = 4
    if args[:1] == ["-j"]:
        j = int(args[1])
        args = args[2:]
    ids = args or sorted(os.path.basename(os.path.dirname(f)) for f in glob.glob(os.path.join(VERIF, "seeded", "*", "meta.json")))
    missed = 0
    with cf.ThreadPoolExecutor(max_workers=j) as ex:
        for sid, pid, verdict, msg in ex.map(one, ids):
            print(sid, pid, verdict, msg, flush=True)
            if verdict != "CAUGHT" and not verdict.startswith("HARMLESS"):
                missed += 1
    print(f"{len(ids) - missed} of {len(ids)} caught")
    # evidence files were rewritten by runs against patched trees: restore the committed ones
    subprocess.run("git checkout -- evidence", shell=True, cwd=VERIF)
    sys.exit(1 if missed else 0)


if __name__ == "__main__":
    main()
