#!/venv/bin/python
"""Evaluate a seeded change: tools/seed_eval.py <Cxx> [<source dir with patch.diff, demo.py, meta.json>] [--checks C01,C02|all]

1. confirms in a scratch worktree (outside /repo and /verif) that the patch applies, the baseline suite passes with
   it, the demonstration fails with it and passes without it;
2. copies the deliverables to /verif/seeded/<id>/;
3. applies the patch to /repo, runs the named checks (default: the attacked property's quick check), undoes it;
4. records everything in /verif/seeded/<id>/meta.json ("evaluation").
"""
import json
import os
import shutil
import subprocess
import sys
import time

VERIF = os.path.dirname(os.path.dirname(os.path.abspath(__file__)))


def sh(cmd, cwd=None, timeout=3600, env=None):
    p = subprocess.run(cmd, shell=True, cwd=cwd, stdout=subprocess.PIPE, stderr=subprocess.STDOUT, text=True, timeout=timeout, env=env)
    return p.returncode, p.stdout


def main():
    pid = sys.argv[1]
    src = sys.argv[2] if len(sys.argv) > 2 and not sys.argv[2].startswith("--") else f"/tmp/wt_{pid}/_seed"
    checks = [pid]
    tier = "quick"
    for a in sys.argv[2:]:
        if a.startswith("--checks"):
            v = a.split("=", 1)[1]
            checks = [f"C{k:02d}" for k in range(1, 21)] if v == "all" else v.split(",")
        if a.startswith("--tier"):
            tier = a.split("=", 1)[1]
    sid = os.path.basename(src.rstrip("/"))
    if sid == "_seed":      # <scratch worktree>/_seed : name the record after the worktree (wt_C01 -> C01, w2_C01 -> w2_C01)
        sid = os.path.basename(os.path.dirname(src.rstrip("/"))).replace("wt_", "")
    dst = os.path.join(VERIF, "seeded", sid)
    os.makedirs(dst, exist_ok=True)
    for f in ("patch.diff", "demo.py", "meta.json"):
        if os.path.exists(os.path.join(src, f)) and os.path.abspath(src) != os.path.abspath(dst):
            shutil.copy(os.path.join(src, f), os.path.join(dst, f))
    patch = os.path.join(dst, "patch.diff")
    meta = json.load(open(os.path.join(dst, "meta.json"))) if os.path.exists(os.path.join(dst, "meta.json")) else {}
    ev = {"at": time.strftime("%Y-%m-%dT%H:%M:%SZ", time.gmtime()), "repo_head": sh("git -C /repo rev-parse --short HEAD")[1].strip()}
    # 1. scratch confirmation
    wt = f"/tmp/seedeval_{sid}_{os.getpid()}"
    sh(f"git -C /repo worktree add -q --detach {wt} HEAD")
    try:
        os.makedirs(os.path.join(wt, "_seed"), exist_ok=True)
        shutil.copy(os.path.join(dst, "demo.py"), os.path.join(wt, "_seed", "demo.py"))
        rc0, out0 = sh(f"/venv/bin/python _seed/demo.py {wt}", cwd=wt, timeout=900)
        rca, outa = sh(f"git apply {patch}", cwd=wt)
        rcs, outs = sh("/venv/bin/python -m pytest -q -p no:cacheprovider -x 2>&1 | tail -3", cwd=wt, timeout=1800)
        rc1, out1 = sh(f"/venv/bin/python _seed/demo.py {wt}", cwd=wt, timeout=900)
        ev["scratch"] = {"patch_applies": rca == 0, "suite_with_patch": outs.strip().splitlines()[-1] if outs.strip() else "",
                         "suite_passes": " passed" in outs and "failed" not in outs,
                         "demo_exit_without_patch": rc0, "demo_exit_with_patch": rc1, "demo_output_with_patch": out1[-600:]}
    finally:
        sh(f"git -C /repo worktree remove --force {wt}")
    ok = ev["scratch"]["patch_applies"] and ev["scratch"]["suite_passes"] and rc0 == 0 and rc1 != 0
    ev["confirmed"] = bool(ok)
    # 3. our checks against the patched /repo
    ev["checks"] = {}
    if ok:
        st = sh("git -C /repo status --porcelain")[1].strip()
        if st:
            print("refusing: /repo has uncommitted changes:\n" + st)
            sys.exit(2)
        rc, out = sh(f"git -C /repo apply {patch}")
        try:
            for c in checks:
                t0 = time.time()
                rcc, outc = sh(f"./check {c} --tier {tier}", cwd=VERIF, timeout=7200)
                viol = [ln for ln in outc.splitlines() if ln.startswith("VIOLATION")]
                first = ""
                lines = outc.splitlines()
                for i, ln in enumerate(lines):
                    if ln.startswith("VIOLATION") and i + 1 < len(lines):
                        first = lines[i + 1].strip()[:300]
                        break
                ev["checks"][c] = {"exit": rcc, "violations": len(viol), "first": first, "wall_s": round(time.time() - t0, 1)}
                print(c, "exit", rcc, "violations", len(viol), first[:160])
        finally:
            sh("git -C /repo checkout -- .")
            # evidence files were rewritten by runs against the patched tree: restore the committed ones
            sh("git checkout -- evidence", cwd=VERIF)
    meta["evaluation"] = ev
    json.dump(meta, open(os.path.join(dst, "meta.json"), "w"), indent=1)
    print(json.dumps({k: ev[k] for k in ("confirmed", "scratch")}, indent=1)[:1200])
    caught = any(v["exit"] == 1 for v in ev["checks"].values())
    print("CAUGHT" if caught else ("NOT-CAUGHT" if ok else "NOT-CONFIRMED"))


if __name__ == "__main__":
    main()
