#!/bin/sh
# Offline set-up: syntax-check every TLA+ module with SANY, create scratch directories. Nothing is fetched or compiled.
set -e
cd "$(dirname "$0")"
mkdir -p .work evidence replays
rm -rf .work/*
fail=0
for f in tla/*.tla; do
  m=$(basename "$f" .tla)
  if ! (cd tla && java -cp /opt/veriftools/tla/tla2tools.jar:/opt/veriftools/tla/CommunityModules-deps.jar tla2sany.SANY "$m" > ../.work/sany_$m.log 2>&1) \
     || grep -qE "Semantic errors|Parse Error|Fatal errors|Could not find module" .work/sany_$m.log; then
    echo "SANY failed for $m"; tail -20 .work/sany_$m.log; fail=1
  fi
done
/venv/bin/python -c "import sys; sys.path.insert(0,'/repo'); import propka; print('propka from', propka.__file__)"
exit $fail
